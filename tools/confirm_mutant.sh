#!/bin/bash
# confirm_mutant.sh <MUTID e.g. C02_A> <dir with patch.diff + demo_*.rs + notes.md>
# Confirms in a scratch worktree (outside /repo and /verif) that the change
#  (1) applies and compiles, (2) leaves the existing suite at 103 passed / 0 failed,
#  (3) makes the demonstration fail, (4) and that the demonstration passes without it.
# Writes /verif/seeded/<MUTID>/{patch.diff,demo,confirm.log} (meta.json is written by hand/tools afterwards).
set -u
id=$1; src=$2
wt=/tmp/confirm/$id
out=/verif/seeded/$id
mkdir -p /tmp/confirm "$out"
git -C /repo worktree remove --force "$wt" >/dev/null 2>&1
rm -rf "$wt"
git -C /repo worktree add -q --detach "$wt" HEAD || exit 3
cp /repo/Cargo.lock "$wt"/
log=$out/confirm.log; : > "$log"
demo=$(ls "$src"/demo_*.rs 2>/dev/null | head -1)
demoname=$(basename "$demo" .rs)
cp "$src/patch.diff" "$out/patch.diff"; cp "$demo" "$out/"; [ -f "$src/notes.md" ] && cp "$src/notes.md" "$out/notes.md"
cd "$wt" || exit 3
export CARGO_NET_OFFLINE=true
if grep -q "middleware/tower" "$out/patch.diff"; then echo "NOTE: middleware patch" >> "$log"; fi
git apply --check "$out/patch.diff" >> "$log" 2>&1 || { echo "RESULT apply=FAIL" | tee -a "$log"; exit 1; }
git apply "$out/patch.diff"
echo "== suite with change" >> "$log"
cargo test --workspace --no-fail-fast --offline 2>&1 | grep -E "^test result|FAILED|panicked|error(\[|:)" >> "$log"
suite=$(grep -m1 "^test result" "$log")
cp "$demo" sentinel-core/tests/
flags="--cfg sentinel_verif"; feat=""; : > "$log.demo_with"; : > "$log.demo_without"
grep -q "sentinel_verif_sched" "$demo" && flags="$flags --cfg sentinel_verif_sched"
grep -q "metric_log\|log::metric" "$demo" && feat="--features metric_log"
grep -q "datasource\|rule_json_array_parser" "$demo" && feat="--features ds_consul"
export CARGO_TARGET_DIR="$wt/target-demo"
echo "demo build: RUSTFLAGS='$flags' $feat" >> "$log"
echo "== demo with change (expect failure)" >> "$log"
RUSTFLAGS="$flags" timeout 2400 cargo test -p sentinel-core --offline $feat --test "$demoname" >> "$log.demo_with" 2>&1; rc_with=$?
tail -5 "$log.demo_with" >> "$log"
git checkout -- sentinel-core/src middleware sentinel-macros 2>/dev/null
echo "== demo without change (expect pass)" >> "$log"
RUSTFLAGS="$flags" timeout 2400 cargo test -p sentinel-core --offline $feat --test "$demoname" >> "$log.demo_without" 2>&1; rc_without=$?
unset CARGO_TARGET_DIR
tail -5 "$log.demo_without" >> "$log"
echo "RESULT suite='$suite' demo_with_rc=$rc_with demo_without_rc=$rc_without" | tee -a "$log"
cd /; git -C /repo worktree remove --force "$wt"; rm -rf "$wt"
