"""Per-property configuration of the monitors (single source for ./check and MANIFEST.json)."""

COMMON_ASSUMPTIONS = [
    "runtime monitoring: the verdict covers only the executions this run produced",
    "hooks (--cfg sentinel_verif): the virtual clock replaces utils::time for the whole process; statistic types are re-exported, nothing else is altered",
    "monitor build: release profile with overflow-checks on, default sentinel-core features unless stated",
]

CHECKS = {
    "C01": {
        "package": "seq", "bin": "c01", "flavor": "seq",
        "shards": {"quick": 4, "thorough": 16},
        "level": "exploration",
        "technique": "runtime monitoring: reference-model + model-free window oracle over generated arrival histories under a virtual clock",
        "rule": "cases = seeded rule sets (1-3 direct/reject rules; thresholds incl. 0 and fractional; stat intervals from the default / reuse-global / private classes) x arrival histories (gaps from boundary grid incl. exact bucket edges, batch 0..8, exits in any order); a case is non-trivial iff it has >=1 rejection and >=1 admission after tokens rolled out of a window; distinct = distinct (geometry classes, #rules, edge-arrival classes hit, #rejections class, #post-rollover admissions class)",
        "level_text": "Every decision of EntryBuilder::build() on the real global slot chain is compared with a clean-room window model and with a model-free bound, over tens of thousands of generated histories; exploration, not exhaustive.",
        "level_note": "Trusted: the virtual-clock hook; the window length asserted is the rule's stat_interval_ms, the ring bucket length is read from the controller's Debug rendering (fallback: documented choice).",
        "design_ref": "DESIGN.md §5 C01",
        "assumptions": COMMON_ASSUMPTIONS + ["flow rules only on the probed resource; global configuration is the default (20x500 ms ring, 2x500 ms default metric)"],
    },
}
CHECKS["C01"]["replay"] = "case"

CHECKS["C02"] = {
    "package": "seq", "bin": "c02", "flavor": "seq",
    "aux_miri": {"tiers": ["thorough"], "part": "ring", "seeds": 1},
    "shards": {"quick": 4, "thorough": 16},
    "level": "exploration",
    "technique": "runtime monitoring: event-list oracle (sum/rate/avg/min recomputed from recorded events) over generated ring/window geometries and timestamp histories; constructor predicate checked on a geometry grid",
    "rule": "cases = (ring n in 1..20 x bucket length in {1,2,3,7,50,100,250,500,1000}) x a servable read window x a non-decreasing event history (gaps from a boundary grid incl. exact multiples of the bucket and of the whole interval and idle gaps of several intervals) with interleaved reads at and after the last write; every 4th case drives a ResourceNode built under a configured geometry through WriteStat/ReadStat under the virtual clock; plus a grid of ~37k (ring, window) geometries for the accept/refuse predicate. Non-trivial iff some read returned a non-zero in-window sum while older (expired) events existed; distinct = distinct (ring size class, bucket length, window/ring ratio, window bucket count, wrapped?, idle-expired?, edge-read classes) resp. (node geometry, generated window) Once per shard more than 10 000 distinct resources (the documented soft cap) are created before the following cases run.",
    "level_text": "Each read API (count_with_time, sum/qps_with_time, ReadStat sum/qps/qps_previous/avg_rt/min_rt on windows, resource nodes and generated read stats) is compared with values recomputed from the recorded events for hundreds of thousands of (geometry, write time, read time) triples incl. wrap-around and full expiry; exploration.",
    "level_note": "Raw ring reads exactly on a bucket edge may also return the physical value that still contains the bucket of exactly one interval ago (statement-compatible either way, see DESIGN §5 C02); qps_previous is checked only while no in-range bucket was recycled by a later write. LeapArray::new(n, 0) is outside the quantifier.",
    "design_ref": "DESIGN.md §5 C02",
    "assumptions": COMMON_ASSUMPTIONS + ["types reached through the verif_export re-exports are the ones the rules use"],
}

CHECKS["C03"] = {
    "package": "seq", "bin": "c03", "flavor": "seq", "replay": "case",
    "shards": {"quick": 4, "thorough": 16},
    "level": "exploration",
    "technique": "runtime monitoring: executable state-machine model compared after every operation (decision, breaker state, listener log) over exhaustively enumerated short sequences and generated long ones under a virtual clock",
    "rule": "cases = (a) every sequence of depth 6 (quick) / 7 (thorough) over the alphabet {enter, complete oldest/newest ok/error, advance 6 ms / half window / window / retry timeout} for 6 fixed single-breaker rule sets covering the 3 strategies (sequences that complete a non-existent entry are dropped as duplicates of shorter ones), (b) generated sequences of length 8..80 over 1-2 breakers per resource (min_request_amount 0..4, thresholds on/around the boundary, 1..5 buckets, retry shorter/equal/longer than the window), optionally with a flow rule so that a probe can be rejected by another rule. Non-trivial iff the sequence contains a full cycle Closed->Open->HalfOpen->(Closed|Open); distinct = distinct (strategy, min amount, bucket count, retry-vs-window class, #breakers, flow rule?, #transition kinds seen, stale completion in Half-Open?, probe rollback?, rejection while Open?)",
    "level_text": "After every operation the admission decision, current_state() of every breaker and the ordered StateChangeListener log (kind + previous state, per rule) are compared with an independent model of the documented machine; bounded-exhaustive for short sequences, sampled for long ones.",
    "level_note": "The model takes 'that probe phase's outcome' to be the first completion observed while Half-Open (the probe's or a stale one); ErrorCount thresholds are integers. Snapshot values passed to listeners are not checked.",
    "design_ref": "DESIGN.md §5 C03",
    "exhaustive_key": None,
    "assumptions": COMMON_ASSUMPTIONS + ["one global recording listener registered for the process; breakers of a resource are consulted in get_breakers_of_resource order"],
}

CHECKS["C04"] = {
    "package": "seq", "bin": "c04", "flavor": "seq",
    "shards": {"quick": 4, "thorough": 16},
    "level": "exploration",
    "technique": "runtime monitoring: client-boundary ledger (conservation oracle) compared with node statistics after every operation under a virtual clock",
    "rule": "cases = generated interleavings of build/exit over 2-4 fresh resources, inbound and outbound, batch 1..7, time advances from a boundary grid (0 ms .. 12 s), with isolation / flow / circuit-breaker rules that block some entries; after EVERY operation in-flight, sum/qps of Pass, Block, Complete, Rt and avg_rt are read on every resource node over the 1 s default window and a 10 s generated window, and on the global inbound node (process-long ledger). Non-trivial iff the case has >=1 blocked and >=1 passed entry and spans a window roll-over; distinct = distinct (#resources, #rules per family, inbound?/outbound?, batch>1?, #blocked class) Once per shard more than 10 000 distinct resources are created before the following cases; every 300 cases the empty resource name is probed (accounted in full, or refused and nothing recorded).",
    "level_text": "Conservation between what the caller observed (Ok/Err of build, exit calls) and what the statistics report, checked after every single operation on thousands of histories; exploration.",
    "level_note": "Which entries get blocked is taken from the observed build() result (C01/C03/C05 decide that); this check decides only the accounting.",
    "design_ref": "DESIGN.md §5 C04",
    "assumptions": COMMON_ASSUMPTIONS + ["the global inbound node is only touched by this process's own cases"],
}

CHECKS["C05"] = {
    "package": "seq", "bin": "c05", "flavor": "seq",
    "shards": {"quick": 4, "thorough": 16},
    "level": "exploration",
    "technique": "runtime monitoring: in-flight ledger per resource and per parameter value as decision oracle, cap invariant asserted on the live node after every operation, rejection reports parsed and checked",
    "rule": "cases = generated build/exit interleavings (up to ~16 simultaneously open entries, batch 1..3) against 1-3 isolation rules (thresholds 1..6) and/or 1-2 hotspot concurrency rules (positional index -3..3, keyed parameter, overrides, capacity default/4/8, values a..d, missing/short argument lists). Non-trivial iff something was rejected and (capacity freed by an exit was re-used by the very next request, or a hotspot rejection happened); distinct = distinct (#iso rules, #hotspot rules, rejection kinds, reuse-after-exit?, missing parameter?, key-over-index?, negative index?, #overrides) One op in ~40 removes the isolation rules by an empty load-for-resource and loads equal rules again (caps must hold as before). Parameter values include the empty string and a blank.",
    "level_text": "Every admission decision is compared with the cap arithmetic from the statement; for hotspot batches >1 only the implications common to both readings of 'batch' are asserted; every rejection must carry the right block type and name a rule that is really exceeded; exploration.",
    "level_note": "Hotspot thresholds and overrides are kept >= 1 (quantifier). When isolation and hotspot both reject, the report of the later slot (hotspot) is accepted.",
    "design_ref": "DESIGN.md §5 C05",
    "assumptions": COMMON_ASSUMPTIONS,
}

CHECKS["C06"] = {
    "package": "seq", "bin": "c06", "flavor": "seq",
    "shards": {"quick": 4, "thorough": 16},
    "level": "exploration",
    "technique": "runtime monitoring: cumulative-envelope trace oracle + clean-room lazy token bucket (rejection justification) + metamorphic replay of per-value projections and of the history without overrides, under a virtual clock",
    "rule": "cases = hotspot QPS/Reject rule (q in {0,1,2,3,5,10}, burst 0..5, d 1..3 s, 0-2 per-value overrides incl. 0, positional index 0/1/-1 or keyed parameter with a decoy positional list, capacity 4/16/64/default) x arrival history of 10..180 requests over 1-4 values, batch 1..6, gaps from {0,1,10,d/2,d-1,d,d+1,2d+1,5d} or random. Each case is executed 1 + #values (+1 with overrides) times on fresh resources. Non-trivial iff it has >=1 rejection and >=1 admission served by a refill; distinct = distinct (q class, burst class, d, #values, #overrides, keyed?, index, batch>1?, gap==d seen?, gap==d+1 seen?)",
    "level_text": "Per value, the admitted tokens are checked against q+b+q(t-first)/d at every admission; every rejection must be justified by the value's (lazily refilled) bucket being short, a zero threshold or a batch above capacity; decisions must not change when the other values' traffic or the other values' overrides are removed; exploration.",
    "level_note": "Admissions are bounded by the statement's cumulative envelope only (a lazily refilled bucket may legitimately exceed a continuously capped one, see DESIGN §5 C06). The number of distinct values stays within the rule's capacity.",
    "design_ref": "DESIGN.md §5 C06",
    "assumptions": COMMON_ASSUMPTIONS,
}

CHECKS["C07"] = {
    "package": "seq", "bin": "c07", "flavor": "seq",
    "shards": {"quick": 4, "thorough": 16},
    "level": "exploration",
    "technique": "runtime monitoring: trace specification over (arrival, decision, start instant) observed at Controller::perform_checking and at EntryBuilder::build() bracketed by virtual-clock readings (virtual sleeps advance the clock)",
    "rule": "cases = flow throttling rules (rate 0..1000 incl. fractional per 100..10000 ms, max queueing 0..2000 ms) and hotspot QPS throttling rules (rate 0..1000 per 1..3 s, 1-3 parameter values), each driven either through perform_checking (no sleeping: bursts at one instant) or through build() (caller really delayed); arrivals placed at the same instant, exactly on / 1-2 clock units around the next free slot, exactly on / around the instant where the wait equals the maximum, after short and long gaps; batch 1..5. Non-trivial iff the case contains a wait, a rejection and an immediate pass; distinct = distinct (family, observation point, rate, interval, max queueing, burst?, edge arrival?, batch>1?) A third of the flow cases replace the rules mid-history by an equal throttling rule (new id) plus a lax reject rule (the schedule must continue); every 6th case is a multi-rule case (2-3 throttling rules on one resource, loaded together or appended).",
    "level_text": "For every pair of consecutive admissions the start instants must be >= batch*interval/rate apart, no admitted request is held longer than the maximum queueing time, a rejection must be justified by a wait beyond it (or threshold 0 / batch above threshold), and build() must not return before the slot; exploration.",
    "level_note": "Slack: 2 ns for flow (float to integer truncation), 1 ms for hotspot (the rule works in whole milliseconds); at wait == max a hotspot rule may queue or reject, a flow rule must queue. TokenResult::Wait is read as nanoseconds, as documented.",
    "design_ref": "DESIGN.md §5 C07",
    "assumptions": COMMON_ASSUMPTIONS + ["the virtual sleep hook is the only way the library blocks the caller"],
}

CHECKS["C08"] = {
    "package": "seq", "bin": "c08", "flavor": "seq",
    "shards": {"quick": 4, "thorough": 16},
    "level": "exploration",
    "technique": "runtime monitoring: trace-specification monitor over generated demand profiles (tens of virtual seconds each) under a virtual clock; admissions recorded per 500 ms bucket, the calculator's allowance sampled once per second",
    "rule": "cases = warm-up/reject rule (q in 30..500 with q >= 10c, cold factor 0(=3),2..6, period 1..8 s quick / 1..20 s thorough) x arrival grid {1,2,5,7,10,13,20} ms with a random in-grid offset x a demand profile built from phases {saturating, exactly-at-allowance, below q/c, idle} (on/off with gaps of 2p, 2p+1, 2.5p, 3p, 5p seconds that must re-cool; shorter gaps with bounds only). Phases are whole calendar seconds so that 'per statistic interval' is measured on bucket-aligned windows. Every case is non-trivial if it reached q from cold, re-cooled after an idle gap, or served sub-cold demand without rejection; distinct = distinct (q class, c, p, grid, phase pattern, reached q?, re-cooled?)",
    "level_text": "Asserted per second of traffic: admissions in any two consecutive 500 ms buckets <= q; allowance within [q/c - 1, q]; under saturating demand admissions >= floor(q/c) - 1, allowance non-decreasing and equal to q no later than 2p+2 s after a cold start; a cold second (initial, or first after an idle gap >= 2p) admits floor(q/c) +- 1; demand below q/c and demand exactly at the allowance are never rejected; exploration.",
    "level_note": "The +-1 slacks are the integer truncation of token counts ('about' in the statement). The allowance is read through Controller::get_calculator() right after a real request of the same second (the once-per-second token sync is idempotent then).",
    "design_ref": "DESIGN.md §5 C08",
    "assumptions": COMMON_ASSUMPTIONS + ["default 1 s / 2 x 500 ms statistic window"],
}

CHECKS["C09"] = {
    "package": "seq", "bin": "c09", "flavor": "seq",
    "shards": {"quick": 4, "thorough": 16},
    "level": "exploration",
    "technique": "runtime monitoring: decision oracle written from the statement, applied to boundary probes whose observed metric values come from real inbound histories (virtual clock) and injected load/CPU readings; rejection reports parsed and checked",
    "rule": "cases = (inbound history: 0..8 entries left in flight, 0..6 completions with chosen age, response time 0..2000 ms and batch 1..4, so that QPS / concurrency / avg RT / min RT / best completion rate vary) x injected load in {0,.125,.25,.5,.75,1} and CPU in {0,.25,.5,12.5,50,99} x 1-3 system rules of distinct metric types, each NoAdaptive or BBR, with its threshold placed below / exactly on / above the observed value; then one inbound (5/6) or outbound (1/6) probe entry. Every case is a boundary probe (non-trivial); distinct = distinct (per-rule (metric, strategy, position), inbound?, expected rejection?, in-flight > 1?, in-flight > estimated capacity?, completions in window?) One case in three has several rules on the same metric type; once per shard more than 10 000 distinct resources are created before the following cases.",
    "level_text": "The probe must be rejected iff some rule trips per the statement (QPS/concurrency/avg RT at >=; load/CPU at > and, under BBR, only with more than one request in flight and in-flight above best completion rate x min RT); the rejection must be a SystemFlow block naming a tripping rule and carrying the observed value; outbound probes are never rejected; exploration.",
    "level_note": "Observed values are computed from the harness's own ledger of the history and cross-checked against the node API before every probe; equality cases use values exactly representable in f32/f64.",
    "design_ref": "DESIGN.md §5 C09",
    "assumptions": COMMON_ASSUMPTIONS + ["hooks verif_set_system_load / verif_set_cpu_usage stand in for the collectors (init is never called, so no collector thread runs)"],
}

CHECKS["C10"] = {
    "package": "seq", "bin": "c10", "flavor": "seq",
    "shards": {"quick": 4, "thorough": 16},
    "level": "exploration",
    "technique": "runtime monitoring: reference-map oracle updated by the same generated operation history as the real rule manager; reported rules, enforcing objects and (flow, isolation) real admission decisions compared after every operation; panics caught per call, process restarted after one",
    "rule": "cases = one rule family (flow, isolation, hotspot, circuit breaker, system in turn) x 2-3 fresh resources x a pool of valid rules, invalid rules and twins (same content, new id) x an operation history of length 2..12 over {load_rules, re-load the very same list, load_rules_of_resource, append_rule, clear_rules, clear_rules_of_resource}. Non-trivial iff the history replaced a non-empty rule set or appended to a resource that already had rules; distinct = distinct (family, #resources, #appends onto existing rules, invalid rule given?, twin appended?, identical reload?, #replacements)",
    "level_text": "After every operation get_rules(), get_rules_of_resource(), the rules bound to controllers/breakers and - for flow and isolation - the number of requests really admitted at a fresh instant must equal what the reference map (valid rules of the last replacement plus appends, per resource, as sets under rule equality) prescribes; return values are asserted only where no duplicates are involved; exploration.",
    "level_note": "Rule equality is my own rendering of the rule's content fields without the id. Rules whose resource differs from the one given to load_rules_of_resource are not generated (outside the quantifier).",
    "design_ref": "DESIGN.md §5 C10",
    "assumptions": COMMON_ASSUMPTIONS + ["a log sink at trace level is installed, as any real user has a logger"],
}

CHECKS["C12"] = {
    "package": "seq", "bin": "c12", "flavor": "seq",
    "shards": {"quick": 4, "thorough": 16},
    "level": "exploration",
    "technique": "runtime monitoring: robustness monitor (catch_unwind per call, trace-level log sink, watchdog thread, health probe of every manager after every case) over rules sampled from the enum cross product x boundary/invalid numerics, loaded through every entry point; process restarted after a panic",
    "rule": "cases = one rule of a family (flow: 6 calculate x 5 control strategies incl. custom with/without registered generator x relation to current / a seen / a never-seen / an empty resource x thresholds {0,.5,1,3,1e6,-1,NaN} x intervals {0,1,500,1000,1500,10000,600000} x warm-up and memory parameters; hotspot: metric x control (incl. custom) x param index -3..3 x keys x thresholds/burst/duration/capacity/overrides; circuit breaker: 5 strategies x retry x min amount x interval x bucket count x threshold incl. NaN; isolation; system: 5 metrics x 2 strategies x thresholds incl. NaN, -1, 101) x loading entry point {load_rules, load_rules_of_resource, append_rule} x 2-6 entries with batch {0,1,1e6}, no/empty/short/long argument lists, attachments, inbound/outbound, empty resource name, exits with and without error; distinct = distinct (rule class, valid?, entry point); every completed case is non-trivial",
    "level_text": "is_valid()=Ok implies nothing panics or stalls while the rule is loaded and entries are built/exited; is_valid()=Err implies the rule never shows up in get_rules(); in both cases a health probe (load, query, enforce, clear on an unrelated resource for all five managers) must pass afterwards; exploration.",
    "level_note": "Numerics stay inside the documented sane range plus the invalid values listed in the quantifier (infinite thresholds and huge LRU capacities are not generated). A stalled case is a violation only if it stalls again when re-run alone (otherwise inconclusive).",
    "design_ref": "DESIGN.md §5 C12",
    "assumptions": COMMON_ASSUMPTIONS + ["custom generators registered by the harness build controllers from the public constructors"],
}

CHECKS["C13"] = {
    "package": "seq", "bin": "c13", "flavor": "seq", "replay": "rerun",
    "shards": {"quick": 4, "thorough": 16},
    "level": "exploration",
    "technique": "runtime monitoring: call-log oracle over custom slot chains of recording slots (contract of the statement checked on the ordered log), exhaustive for small chain shapes, sampled for larger ones",
    "rule": "cases = custom SlotChain with p prepare, c check, s statistic recording slots; exhaustive for p,c,s in 0..2 over all order values from {0,1,5,1000} (ties included), all scripts {pass, blocked(type i, 'slot-i'), wait} and all insertion permutations (412k chains); sampled for p,c,s in 0..4 with order values from {0,1,1,5,1000} and a random insertion interleaving; EntryBuilder::with_slot_chain(..).build() then one exit(). Every case is non-trivial; distinct = distinct (shape, ties per kind, position/number of blocking slots, wait present)",
    "level_text": "On the recorded call log: all prepare slots first, then check slots, then statistic notifications, each group in non-decreasing order value and each slot exactly once; Err iff a check was scripted blocked, carrying (to the caller and to every statistic slot) an error produced by a blocking slot; on_completed exactly once per statistic slot after exit iff the entry passed; small shapes exhaustively (exhaustive_small_shapes in the evidence), larger sampled.",
    "level_note": "Equal order values may run in any relative order. On a rejected entry there is no handle to call exit() on; build() has already released it.",
    "design_ref": "DESIGN.md §5 C13",
    "assumptions": ["runtime monitoring: the verdict covers only the executions this run produced", "no hooks needed (public API only)"],
}

CHECKS["C11"] = {
    "package": "seq", "bin": "c11", "flavor": "seq", "replay": "rerun",
    "extra_parts": [{"package": "sched", "bin": "c11c", "flavor": "sched", "shards": {"quick": 5, "thorough": 15}}],
    "shards": {"quick": 4, "thorough": 16},
    "level": "exploration",
    "technique": "runtime monitoring: differential (metamorphic) oracle - the same history under the same virtual timestamps with and without a reload of equal rules must give identical traces and identical enforcing objects (Arc identity); a third, state-losing run measures whether the case could have shown a difference; plus model checks for changed parameters",
    "rule": "cases (3 of 4) = one resource with up to one flow setup (1-2 reject rules on global/private windows, or one throttling rule, or one warm-up rule), up to one hotspot rule (QPS reject / QPS throttling / concurrency) and up to one circuit breaker (3 strategies, 1-4 buckets) x a history of 8..90 operations {request with value a/b/c and batch 1-2, exit with/without error, advance 1 ms..6 s} x a reload at a random position through load_rules or load_rules_of_resource, with new ids, reversed order, optionally an extra lax rule on the same resource and an unrelated resource added or changed in the same call; each executed as control / reload / reset on fresh resources. Non-trivial iff the reset (state-losing) run differs from the control; distinct = distinct (flow kind, hotspot kind, breaker strategy, entry point, extra rule?, unrelated-resource variant). Cases (1 of 4) = changed parameter: flow reject threshold, throttling rate or interval only, hotspot concurrency threshold, breaker error-count threshold, via either entry point, keeping or renewing the id",
    "level_text": "Trace equality (decision, block type, virtual time consumed by build(), breaker state after every operation) between the control run and the run with the reload, and pointer identity of controllers/breakers across the reload; for changed parameters the very next entries must follow the new value; exploration.",
    "level_note": "Per resource at most one rule of each order-sensitive kind is used (two throttling / hotspot / breaker rules on one resource would make the trace depend on HashSet iteration order, which differs between the two runs). Whether statistics survive a CHANGED breaker rule is not asserted. Concurrent half (sched/src/bin/c11c.rs, shuttle): while one thread reloads (load-all with the resource's rules equal and another resource changed / removed, or load-for-resource of another resource) a second thread's requests on a resource whose unchanged rule rejects everything must still be rejected in every sampled schedule and every schedule with <= 1 preemption, and the enforcing object must be the same afterwards.",
    "design_ref": "DESIGN.md §5 C11",
    "assumptions": COMMON_ASSUMPTIONS,
}

CHECKS["C17"] = {
    "package": "seq", "bin": "c17", "flavor": "seq", "replay": "rerun",
    "shards": {"quick": 2, "thorough": 8},
    "level": "exploration",
    "technique": "runtime monitoring: acceptance predicate written from the statement compared with init_with_config / init_with_config_file over a geometry grid; for accepted rows the effective geometry (accessor hook + behavioural window check under the virtual clock), a real flow-limited entry sequence and all public config getters are observed on the initialising thread and on a freshly spawned std::thread",
    "rule": "cases = (sample_count_total, interval_ms_total, sample_count, interval_ms) from the grid {0,1,2,3,4,7,10,20} x {0,500,999,1000,2000,10000} x {0..5} x {0,100,250,500,1000,2000,3000,10000} (2304 rows incl. zero, non-dividing and non-tiling values) plus random rows, alternately given as ConfigEntity and as YAML text (collectors, cached time and metric log switched off, so no background threads). All rows count; distinct = distinct (entity/yaml, servable?, window tiles ring?, bucket counts divide?, zero present?)",
    "level_text": "accepted iff the default metric window can be served by the global window; for every accepted row: no panic, node geometry as configured and an event leaves the default window exactly one configured window later, a threshold-2 flow rule admits exactly 2 of 4 simultaneous requests - on the initialising thread and on another thread - and all configuration getters agree between the two threads; exploration (the grid is enumerated completely).",
    "level_note": "A rejected initialisation must leave the configuration in effect untouched (getters before = after, first touches on both threads work with the previous geometry). Rows run in sequence inside one shard process, so nodes created under earlier configurations exist when the next one is accepted.",
    "design_ref": "DESIGN.md §5 C17",
    "assumptions": COMMON_ASSUMPTIONS + ["YAML documents are hand-written by the monitor (all keys present)"],
}

CHECKS["C18"] = {
    "package": "dsj", "bin": "c18", "flavor": "seq", "replay": "rerun",
    "shards": {"quick": 4, "thorough": 16},
    "level": "exploration",
    "technique": "runtime monitoring: round-trip oracle (equality + id + re-serialised document + identical enforcement of a short history) over generated rules through the real datasource parser; mutated documents (every key dropped / reordered / wrongly typed, truncation at every byte) under catch_unwind; metric items through Display / from_string",
    "rule": "cases = 1-3 generated rules of one family (all enum variants incl. #[serde(skip)] custom ones, u32/u64 boundary values incl. 2^53+-1 and MAX, finite f64 incl. denormals / 17-digit values / -0.0, names with spaces, tabs, quotes, backslashes, '|', unicode, empty; override maps) serialised with serde_json and parsed by datasource::rule_json_array_parser (sentinel-core built with feature ds_consul); for the first rule every key is dropped, all keys are shuffled, every key gets a wrongly typed value, and the document is cut at every character boundary; 1 case in 6 = 20 metric items with boundary counters, 7 resource types, timestamps 0..year 9999, same name pool. Distinct = distinct (family, #rules, enforced?, hard name?) resp. (separator in name?, outer whitespace?, ascii?, resource type)",
    "level_text": "parsed == original (PartialEq and id), re-serialised document equal as JSON, the parsed rule decides a 24-operation history exactly like the original (for valid, sanely sized rules); a dropped key yields the field's default and changes nothing else; reordering changes nothing; wrong types and every proper prefix of the document are errors; nothing panics; a metric line parses back to the item with '|' replaced by '_' in the name; exploration.",
    "level_note": "Rules holding a #[serde(skip)] variant must fail to serialise cleanly (no panic). Resource names with line breaks are outside the quantifier. Byte-for-byte equality of the re-serialised text is not required (override maps are hash maps).",
    "design_ref": "DESIGN.md §5 C18",
    "assumptions": COMMON_ASSUMPTIONS + ["sentinel-core is built with feature ds_consul for this monitor only (the parser is compiled only with a ds_* feature)"],
}

CHECKS["C20"] = {
    "package": "towerh", "bin": "c20", "flavor": "seq", "replay": "rerun",
    "shards": {"quick": 4, "thorough": 16},
    "level": "exploration",
    "technique": "runtime monitoring: in-flight ledger oracle around sentinel_tower::SentinelService with a scripted, call-counting inner service; futures polled by hand (no-op waker), several pending at once; fault sequences = inner outcomes",
    "rule": "cases = SentinelService (server or client role, with or without fallback) over an inner service scripted per request as {ready Ok, ready Err, pending 1-3 polls then Ok / Err}, under an isolation rule with threshold 1..3 on the extracted resource; 5..60 operations {start a request, poll one of the pending futures, (1 case in 5) drop a pending future}. Non-trivial iff some request was rejected and some admitted request was released; distinct = distinct (threshold, fallback?, role, rejected?, released after Err?, released after Ok?, max concurrently pending, drops?)",
    "level_text": "Per request: inner called exactly once iff the ledger says the isolation rule admits it, never for a rejected one, which gets the fallback response or an error; an admitted request returns the inner result; after every operation the resource's in-flight count equals the number of admitted requests whose inner future has not resolved yet - so it returns to the previous value on Ok and on Err; exploration.",
    "level_note": "Only middleware/tower is exercised (tonic 0.8 is not available offline; its interceptor releases the entry before the call and has no inner future). Dropping a future before completion is driven and reported under coverage.dropped_future_observations, not asserted.",
    "design_ref": "DESIGN.md §5 C20",
    "assumptions": ["runtime monitoring: the verdict covers only the executions this run produced", "harness workspace patches crates.io sentinel-core to /repo/sentinel-core so that /repo/middleware/tower is built against the working tree"],
}

CHECKS["C14"] = {
    "package": "sched", "bin": "c14", "flavor": "sched", "replay": "rerun",
    "shards": {"quick": 16, "thorough": 16},
    "extra_parts": [{"package": "seq", "bin": "c14s", "flavor": "seq", "shards": {"quick": 4, "thorough": 16}}],
    "aux_tsan": {"tiers": ["thorough"], "bins": ["c14s"], "budget_ms": 120000},
    "aux_miri": {"tiers": ["thorough"], "part": "all", "seeds": 4},
    "timeout": {"quick": 1500, "thorough": 7200},
    "distinct_from_extra": "distinct_schedules",
    "level": "exploration",
    "technique": "runtime monitoring under controlled scheduling: the real sentinel-core with its std::sync primitives, atomics and lazy statics switched to the shuttle runtime (--cfg sentinel_verif_sched) is run under every schedule with <= k preemptions (CHESS-style enumeration, k = 1..3) and under randomised and PCT(1..3) schedulers; a ledger oracle is evaluated after join in every execution; plus barrier-released real OS-thread stress with the same oracle",
    "rule": "scheduled half: 112 scenarios = {2,3 threads} x {1,2 build/exit pairs each} x {brand-new, existing resource} x {inbound, outbound} x {clock fixed inside a bucket, a further thread steps the clock at a scheduler-chosen point by 100 ms (inside the bucket: response times become non-zero, totals stay exact), 300 / 600 ms (across one / two bucket edges) or 10 s (one whole ring interval: the same slot again)} x {all exited, last entry of every thread left open}; each scenario explored with 5000 (quick) / 50000 (thorough) executions split over a random scheduler and PCT depth 1-3; evaluations = executions, distinct_nontrivial = number of DISTINCT schedules (hash of the sequence of scheduling decisions) summed over scenarios - every execution has >=2 contending threads. Stress half: 12k (quick) / 200k (thorough) trials per shard of 2-4 OS threads released by a barrier on a fresh resource",
    "level_text": "After join in every execution: all entries were accounted on the one node registered for the resource (Arc identity), in-flight equals the un-exited entries, pass/complete/rt totals equal the per-thread sums when the clock is fixed inside one bucket and never exceed them when the clock steps; same on the global inbound node; sampled schedules, not exhaustive (shuttle has no preemption-bounded exhaustive mode that terminates here: ~400 scheduling points per execution).",
    "level_note": "Every schedule with <= 1 preemption is executed for every scenario (<= 2 for the smallest fixed-clock ones; thorough: 2-3), see coverage.preemption_bounded_*; beyond the bound schedules are sampled (random + PCT). shuttle's atomics are sequentially consistent (weaker orderings are not modelled).",
    "design_ref": "DESIGN.md §5 C14",
    "assumptions": ["runtime monitoring: the verdict covers only the executions this run produced", "hook H6: crate::vsync switches Mutex/RwLock/Once/atomics/lazy_static/yield_now to shuttle under --cfg sentinel_verif_sched; Arc stays std", "virtual clock (std atomics, invisible to the scheduler)"],
}

CHECKS["C15"] = {
    "package": "sched", "bin": "c15", "flavor": "sched", "replay": "rerun",
    "shards": {"quick": 16, "thorough": 16},
    "distinct_from_extra": "distinct_schedules",
    "level": "exploration",
    "technique": "runtime monitoring under controlled scheduling (shuttle runtime switched in under --cfg sentinel_verif_sched): deadlock = every unfinished task blocked (scheduler verdict), panic in any task, and a sequential health probe of all five managers after join, over every schedule with <= 1 preemption (quick; 2 capped in thorough) and randomised and PCT(1..3) schedules of pairs/triples of manager calls running next to entries",
    "rule": "scenarios = (a) for each of the 5 families all 28 unordered pairs of {load_rules A, load_rules B, load_rules_of_resource, append_rule, clear_rules, clear_rules_of_resource, get_*} on two threads plus a thread building/exiting two entries on the affected resource, rules preloaded; (b) the 28 circuit-breaker pairs again with a plain and with a 'querying' StateChangeListener (every callback calls get_rules, get_rules_of_resource, get_breakers_of_resource, flow::get_rules) while the entry thread completes with errors so that the breaker opens, probes and re-opens; (c) 20 cross-family pairs; (d) probes rejected by a flow rule (exit-hook rollback) racing with breaker removal, with and without listener; (e) 6 three-thread / two-step scenarios. 800 (quick) / 20000 (thorough) executions per scenario split over random and PCT depth 1-3; evaluations = executions, distinct_nontrivial = distinct schedules (hash of scheduling decisions) summed over scenarios",
    "level_text": "No sampled schedule of any scenario deadlocks, panics (incl. unwrap on a poisoned lock) or leaves a manager that does not accept and report a freshly loaded rule; sampled, not exhaustive.",
    "level_note": "Custom generators (breaker strategy / flow control strategy Custom) that query read-only manager functions are exercised: querying the other families' managers must work; querying the generator's own manager, and two generators querying each other's managers, deadlock on the unchanged tree by construction (generators run under the manager locks) - three known findings, see KNOWN_FINDINGS.txt and DESIGN §9.3; hotspot generators (same structure) are not exercised. The real-OS-thread confirmation run with gdb stack sampling described in the design was not built; the scheduler's verdict is conclusive on its own.",
    "design_ref": "DESIGN.md §5 C15",
    "assumptions": ["runtime monitoring: the verdict covers only the executions this run produced", "hook H6 (vsync facade) and H7 (BreakerBase::drop is a no-op while unwinding, schedulable build only)", "shuttle models Mutex/RwLock/Once/atomics/lazy_static; std::sync::Arc is used as is"],
}

CHECKS["C16"] = {
    "package": "sched", "bin": "c16", "flavor": "sched", "replay": "rerun",
    "shards": {"quick": 16, "thorough": 16},
    "extra_parts": [{"package": "seq", "bin": "c16s", "flavor": "seq", "shards": {"quick": 8, "thorough": 16}}],
    "aux_tsan": {"tiers": ["thorough"], "bins": ["c16s"], "budget_ms": 120000},
    "distinct_from_extra": "distinct_schedules",
    "level": "exploration",
    "technique": "runtime monitoring under controlled scheduling (shuttle; sampled random/PCT schedules plus CHESS-style enumeration of every schedule with <= 2 preemptions) and on gated real OS threads: per-thread client-boundary results and the StateChangeListener log of every execution are checked by a trace oracle (path of the state machine, one winner per transition, one admission per Half-Open phase, no admission while Open before the retry time)",
    "rule": "scenarios (x 3 breaker strategies) = {2,3 in-flight entries completing with a failure at once (each alone opens the breaker)} + {2,3 requests arriving exactly at / 1 ms before the retry time of an Open breaker} + {2,3 requests after the retry time racing with a stale failing completion} + {probe completion ok/fail x stale completion ok/fail x 1,2 new requests, all racing, from Half-Open}; 3000 (quick) / 60000 (thorough) executions per scenario split over random and PCT depth 1-3; evaluations = executions, distinct_nontrivial = distinct schedules (hash of scheduling decisions) summed over scenarios",
    "level_text": "In every sampled schedule the listener log is a path of the machine that ends in current_state(); exactly one Closed->Open for simultaneous opening completions; exactly one request admitted and one Open->HalfOpen for simultaneous requests after the retry time, none 1 ms before it; after a failed completion re-opened the breaker nothing is admitted at the same instant; admissions while not Closed equal the number of Open->HalfOpen events; sampled, not exhaustive.",
    "level_note": "The clock is fixed during the concurrent phase, so 'before the retry timeout' is decidable exactly. Preemption-bounded enumeration is complete through bound 1 for all but the largest scenarios in the quick tier (bound 2 for the smallest), see coverage.preemption_bounded_*; beyond that schedules are sampled (random + PCT) and real threads are stressed (same scenarios and oracles, harness/shared/c16_scn.rs).",
    "design_ref": "DESIGN.md §5 C16",
    "assumptions": ["runtime monitoring: the verdict covers only the executions this run produced", "hook H6 (vsync facade), H7; virtual clock"],
}

CHECKS["C19"] = {
    "package": "mlog", "bin": "c19", "flavor": "seq", "replay": "case",
    "shards": {"quick": 4, "thorough": 16},
    "level": "fault_enumeration",
    "technique": "runtime monitoring: (A) reference-model oracle over generated write sequences through the real DefaultMetricLogWriter with directory observation after every write, all (begin,end,resource) / (begin,max_lines) queries compared; (B) fault enumeration: the writer runs in a child under strace, the parsed openat/write/unlink stream is replayed byte by byte and EVERY prefix is searched",
    "rule": "part A cases = write sequences of 2..14 seconds x 1..4 resources (names incl. '|' and '.'), gaps of 1/2/5 s, ms offsets, repeated writes of the same second, creation close to midnight UTC (day change), single-file size limits {120,200,350,600,1e6} bytes (roll-over up to file number .13), max file count 1..4; queries = all pairs of written seconds +-1 x {all, 3 resource names, unknown} and begin x max_lines {1,2,3,5,1000}, each on a fresh DefaultMetricSearcher. Part B cases = the same generator (smaller), executed by a child process under `strace -f -y -xx -e openat,write,unlink,unlinkat`; crash points = after every create/unlink and after EVERY byte of every write (torn index entries and torn lines both occur). Non-trivial: part A sequences with at least one retained item, all part B sequences; distinct = distinct (files, size roll?, day roll?, retention removed files?, max files, length) resp. (files, unlinks?, torn index?, torn line?, size)",
    "level_text": "Part A: every query result equals the list of written-and-retained items computed from the observation record (by-time: exact list in write order; max-lines: a prefix of it of length >= min(n, available)); the newest max_files files are on disk. Part B: at every crash point of every traced sequence both searches must not panic, must return - in order - every item whose line and whose second's index entry are completely on disk, and may return at most one item that is not a complete line on disk (the torn one); crash points of a sequence are enumerated completely, sequences and queries are sampled.",
    "level_note": "Part A puts every query to a fresh searcher and to one long-lived searcher per case (position cache carried over); part B uses fresh searchers. strace is the observer of the byte stream; the replay of the whole stream is cross-checked against the directory the child left behind.",
    "design_ref": "DESIGN.md §5 C19",
    "assumptions": COMMON_ASSUMPTIONS + ["sentinel-core built with feature metric_log for this monitor only", "strace available and ptrace permitted (else the run is inconclusive, never a violation)"],
}

NOT_APPLICABLE = {}
