"""Per-property configuration of the monitors (single source for ./check and MANIFEST.json)."""

COMMON_ASSUMPTIONS = [
    "runtime monitoring: the verdict covers only the executions this run produced",
    "hooks (--cfg sentinel_verif): the virtual clock replaces utils::time for the whole process; statistic types are re-exported, nothing else is altered",
    "monitor build: release profile with overflow-checks on, default sentinel-core features unless stated",
]

CHECKS = {
    "C01": {
        "package": "seq", "bin": "c01", "flavor": "seq",
        "shards": {"quick": 4, "thorough": 16},
        "level": "exploration",
        "technique": "runtime monitoring: reference-model + model-free window oracle over generated arrival histories under a virtual clock",
        "rule": "cases = seeded rule sets (1-3 direct/reject rules; thresholds incl. 0 and fractional; stat intervals from the default / reuse-global / private classes) x arrival histories (gaps from boundary grid incl. exact bucket edges, batch 0..8, exits in any order); a case is non-trivial iff it has >=1 rejection and >=1 admission after tokens rolled out of a window; distinct = distinct (geometry classes, #rules, edge-arrival classes hit, #rejections class, #post-rollover admissions class)",
        "level_text": "Every decision of EntryBuilder::build() on the real global slot chain is compared with a clean-room window model and with a model-free bound, over tens of thousands of generated histories; exploration, not exhaustive.",
        "level_note": "Trusted: the virtual-clock hook; the window length asserted is the rule's stat_interval_ms, the ring bucket length is read from the controller's Debug rendering (fallback: documented choice).",
        "design_ref": "DESIGN.md §5 C01",
        "assumptions": COMMON_ASSUMPTIONS + ["flow rules only on the probed resource; global configuration is the default (20x500 ms ring, 2x500 ms default metric)"],
    },
}
NOT_APPLICABLE = {}
