#!/bin/bash
# harness build helper: hb.sh <package> <bin> [flavor]   (prints only errors / harness warnings)
pkg=$1; bin=$2; flavor=${3:-seq}
if [ "$flavor" = sched ]; then
  export RUSTFLAGS="--cfg sentinel_verif --cfg sentinel_verif_sched" CARGO_TARGET_DIR=/verif/harness/target-sched
else
  export RUSTFLAGS="--cfg sentinel_verif" CARGO_TARGET_DIR=/verif/harness/target
fi
cd /verif/harness && cargo build --release --offline -p "$pkg" --bin "$bin" 2>&1 | python3 -c "
import sys,re
txt=sys.stdin.read()
blocks=re.split(r'\n(?=warning|error|   Compiling|    Finished)',txt)
for b in blocks:
    if b.startswith('error') or (b.startswith('warning') and '/verif/harness' in b) or b.lstrip().startswith('Finished'):
        print(b)
"
