#!/bin/bash
# try_mutant.sh <patch.diff> <Cxx> [tier]  — apply a seeded change to /repo, run one check, undo.
patch=$1; id=$2; tier=${3:-quick}
cd /repo || exit 9
if ! git diff --quiet; then echo "/repo has uncommitted changes"; exit 9; fi
git apply "$patch" || { echo "APPLY FAILED"; exit 9; }
cd /verif && ./check "$id" "$tier" > /tmp/try_$$.log 2>&1; rc=$?
git -C /repo checkout -- .
grep -E "^(VIOLATION|KNOWN-FINDING|OK|INCONCLUSIVE|  sig=)" /tmp/try_$$.log | head -12
echo "exit=$rc"
rm -f /tmp/try_$$.log
# evidence written by a mutant run is not evidence for the real tree
git -C /verif checkout -- evidence 2>/dev/null
exit 0
