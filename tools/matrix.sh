#!/bin/bash
# matrix.sh [tier] [MUTID[:Cxx]...] — apply every seeded change to /repo in turn, run the check of the
# property it breaks, undo it; one line per change in /verif/seeded/MATRIX.<tier>.tsv
# (id, check, verdict caught|MISSED|inconclusive|apply-failed, exit code, first signature, seconds).
tier=${1:-quick}; shift
ids=("$@")
[ ${#ids[@]} -eq 0 ] && ids=($(ls -d /verif/seeded/C*/ | xargs -n1 basename))
out=/verif/seeded/MATRIX.$tier.tsv
tmp=$(mktemp)
cd /repo || exit 9
if ! git diff --quiet; then echo "/repo has uncommitted changes"; exit 9; fi
for spec in "${ids[@]}"; do
  # <MUTID> or <MUTID>:<Cxx> (run another property's check against the change)
  id=${spec%%:*}; prop=${id%%_*}
  [ "$spec" != "$id" ] && prop=${spec##*:}
  patch=/verif/seeded/$id/patch.diff
  s=$(date +%s)
  if ! git -C /repo apply --check "$patch" 2>/dev/null; then
    line="$id\t$prop\tapply-failed\t-\t-\t0"
  else
    git -C /repo apply "$patch"
    (cd /verif && VERIF_SEED=${VERIF_SEED:-1} ./check "$prop" "$tier" > "$tmp" 2>&1); rc=$?
    git -C /repo checkout -- .
    sig=$(grep -m1 -E "^  sig=" "$tmp" | sed 's/^  sig=//; s/ count=.*//')
    case $rc in 0) v=MISSED;; 1) v=caught;; *) v=inconclusive; sig=$(grep -m1 INCONCLUSIVE "$tmp" | cut -c1-160);; esac
    line="$id\t$prop\t$v\t$rc\t$sig\t$(( $(date +%s)-s ))"
  fi
  echo -e "$line"
  # replace this id's line in the matrix
  touch "$out"; grep -v -P "^$id\t$prop\t" "$out" > "$out.new"; echo -e "$line" >> "$out.new"; sort "$out.new" > "$out"; rm -f "$out.new"
done
rm -f "$tmp"
# evidence written while a change was applied is not evidence for the real tree
git -C /verif checkout -- evidence 2>/dev/null
