#!/bin/bash
# confirm_suite.sh <MUTID>: re-run the existing suite with the seeded change (up to 3 times),
# recording the names of failing tests; appends to /verif/seeded/<MUTID>/confirm.log
id=$1; out=/verif/seeded/$id; wt=/tmp/confirm/s_$id
mkdir -p /tmp/confirm; git -C /repo worktree remove --force "$wt" >/dev/null 2>&1; rm -rf "$wt"
git -C /repo worktree add -q --detach "$wt" HEAD || exit 3
cp /repo/Cargo.lock "$wt"/; cd "$wt" || exit 3
git apply "$out/patch.diff" || { echo "SUITE-RERUN apply failed (patch made against an older commit)" >> "$out/confirm.log"; cd /; git -C /repo worktree remove --force "$wt"; exit 1; }
for i in 1 2 3; do
  CARGO_NET_OFFLINE=true cargo test --workspace --no-fail-fast --offline > suite.log 2>&1
  res=$(grep -m1 "^test result" suite.log); failed=$(grep -E "^test .* FAILED$" suite.log | tr '\n' ' ')
  echo "SUITE-RERUN $i: $res failing: [$failed]" >> "$out/confirm.log"
  echo "$res" | grep -q " 0 failed" && break
done
cd /; git -C /repo worktree remove --force "$wt"; rm -rf "$wt"
