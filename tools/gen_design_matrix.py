#!/usr/bin/env python3
"""Regenerate §10 of DESIGN.md (between the GENERATED MATRIX markers) from seeded/*/meta.json."""
import glob
import json
import os

ROOT = os.path.dirname(os.path.dirname(os.path.abspath(__file__)))
rows = []
for mp in sorted(glob.glob(os.path.join(ROOT, "seeded", "C*", "meta.json"))):
    m = json.load(open(mp))
    det = m.get("detection", {})
    cells = []
    for tier in ("quick", "thorough"):
        d = det.get(tier)
        cells.append("–" if not d else (f"**{d['verdict']}**" if d["verdict"] != "caught" else f"caught: `{d['signature']}`"))
    for k, d in sorted(det.items()):
        if ":" in k and d["verdict"] == "caught":
            cells[1] = (cells[1] if cells[1] != "–" else "") + f" caught by `{d['check']}`: `{d['signature']}`"
    summary = m.get("summary", "").split("—", 1)[-1].strip().replace("|", "\\|")
    rows.append(f"| {m['id']} | {summary[:150]} | {cells[0]} | {cells[1]} |")
n = len(rows)
caught = sum(1 for r in rows if "caught: " in r.split("|")[3])
text = [
    f"{n} changes produced by independent sub-agents in four rounds (each was given only the property text and its",
    "own scratch worktree; in the third and fourth round (suffixes E/F, D/E and G for C14, C15, C19) also a one-line summary of",
    "the changes already seeded for that property, so as not to repeat them; none saw /verif or was told what the",
    "checks detect), each confirmed by `tools/confirm_mutant.sh` in a scratch worktree: it applies,",
    "the existing 103-test suite still passes, its demonstration fails with it and passes without it. Every",
    "change needs something specific to manifest (see `seeded/<id>/meta.json: needs_to_manifest`).",
    f"`tools/matrix.sh` applies each to /repo, runs the check of its property and undoes it: {caught} of {n} are caught by the quick check.",
    "",
    "| change | what it does | `./check <Cxx> quick` | thorough / other checks (only run where quick missed) |",
    "|---|---|---|---|",
] + rows
p = os.path.join(ROOT, "DESIGN.md")
s = open(p).read()
a = s.index("<!-- BEGIN GENERATED MATRIX -->") + len("<!-- BEGIN GENERATED MATRIX -->")
b = s.index("<!-- END GENERATED MATRIX -->")
open(p, "w").write(s[:a] + "\n" + "\n".join(text) + "\n" + s[b:])
print(f"{n} seeded changes, {caught} caught by quick")
