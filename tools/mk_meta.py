#!/usr/bin/env python3
"""mk_meta.py — (re)write /verif/seeded/<id>/meta.json from notes.md, patch.diff, confirm.log and the
detection matrices (seeded/MATRIX.<tier>.tsv). Fields written by hand in an existing meta.json
(`needs_to_manifest`, `summary`, `remarks`) are kept."""
import glob
import json
import os
import re

ROOT = os.path.join(os.path.dirname(os.path.abspath(__file__)), "..", "seeded")


def matrices():
    m = {}
    for path in sorted(glob.glob(os.path.join(ROOT, "MATRIX.*.tsv"))):
        tier = os.path.basename(path).split(".")[1]
        for line in open(path):
            f = line.rstrip("\n").split("\t")
            if len(f) >= 6:
                own = f[0].split("_")[0] == f[1]
                m.setdefault(f[0], {})[tier if own else f"{tier}:{f[1]}"] = {"check": f"./check {f[1]} {tier}", "verdict": f[2], "exit": f[3],
                                                "signature": f[4], "seconds": int(f[5] or 0)}
    return m


def section(text, pattern):
    out, on = [], False
    for line in text.splitlines():
        if line.startswith("#"):
            if on:
                break
            on = bool(re.search(pattern, line, re.I))
            continue
        if on:
            out.append(line)
    return "\n".join(out).strip()


def main():
    mats = matrices()
    for d in sorted(glob.glob(os.path.join(ROOT, "C*/"))):
        mid = os.path.basename(d.rstrip("/"))
        notes = open(os.path.join(d, "notes.md")).read() if os.path.exists(os.path.join(d, "notes.md")) else ""
        patch = open(os.path.join(d, "patch.diff")).read()
        files = re.findall(r"^\+\+\+ b/(\S+)", patch, re.M)
        old = {}
        mp = os.path.join(d, "meta.json")
        if os.path.exists(mp):
            old = json.load(open(mp))
        title = ""
        for line in notes.splitlines():
            if line.startswith("# "):
                title = line[2:].strip()
                break
        confirm = {}
        cl = os.path.join(d, "confirm.log")
        if os.path.exists(cl):
            txt = open(cl).read()
            mres = re.findall(r"RESULT suite='([^']*)' demo_with_rc=(\d+) demo_without_rc=(\d+)", txt)
            if mres:
                s, w, wo = mres[-1]
                confirm = {"existing_suite_with_change": s, "demo_exit_with_change": int(w), "demo_exit_without_change": int(wo)}
            reruns = re.findall(r"SUITE-RERUN \d+: (.*)", txt)
            if reruns:
                confirm["suite_reruns"] = reruns
        demo = [os.path.basename(p) for p in glob.glob(os.path.join(d, "demo_*"))]
        meta = {
            "id": mid,
            "property": mid.split("_")[0],
            "summary": old.get("summary") or title,
            "files_changed": files,
            "needs_to_manifest": old.get("needs_to_manifest") or section(notes, r"need|manifest") or "see notes.md",
            "demonstration": demo,
            "confirmed_by": "tools/confirm_mutant.sh (scratch worktree under /tmp, removed afterwards): existing suite with the change, demonstration with and without it",
            "confirmation": confirm,
            "detection": mats.get(mid, {}),
        }
        if old.get("remarks"):
            meta["remarks"] = old["remarks"]
        with open(mp, "w") as f:
            json.dump(meta, f, indent=1, sort_keys=True)
            f.write("\n")
    print("meta.json written for", len(glob.glob(os.path.join(ROOT, 'C*/'))), "seeded changes")


if __name__ == "__main__":
    main()
