#!/bin/bash
# confirm_mutant_tower.sh <MUTID> <dir with patch.diff + demo_*.rs + cargo_local_setup.diff + notes.md>
# Like confirm_mutant.sh, for demonstrations that live in middleware/tower/tests: the middleware is not a
# workspace member and depends on sentinel-core from crates.io, so the demonstration needs a local
# workspace set-up (cargo_local_setup.diff, never part of the seeded change itself).
set -u
id=$1; src=$2
wt=/tmp/confirm/$id; out=/verif/seeded/$id
mkdir -p /tmp/confirm "$out"
git -C /repo worktree remove --force "$wt" >/dev/null 2>&1; rm -rf "$wt"
git -C /repo worktree add -q --detach "$wt" HEAD || exit 3
cp /repo/Cargo.lock "$wt"/
log=$out/confirm.log; : > "$log"
demo=$(ls "$src"/demo_*.rs | head -1); demoname=$(basename "$demo" .rs)
for f in patch.diff cargo_local_setup.diff notes.md Cargo.lock.local_setup; do [ -f "$src/$f" ] && cp "$src/$f" "$out/$f"; done; cp "$demo" "$out/"
cd "$wt" || exit 3
export CARGO_NET_OFFLINE=true
git apply --check "$out/patch.diff" >> "$log" 2>&1 || { echo "RESULT apply=FAIL" | tee -a "$log"; exit 1; }
git apply "$out/patch.diff"
echo "== suite with change (original workspace)" >> "$log"
cargo test --workspace --no-fail-fast --offline 2>&1 | grep -E "^test result|FAILED|panicked|error(\[|:)" >> "$log"
suite=$(grep -m1 "^test result" "$log")
git apply "$out/cargo_local_setup.diff" >> "$log" 2>&1 || echo "local setup did not apply" >> "$log"
[ -f "$out/Cargo.lock.local_setup" ] && cp "$out/Cargo.lock.local_setup" Cargo.lock
mkdir -p middleware/tower/tests; cp "$demo" middleware/tower/tests/
flags=""; grep -q "sentinel_verif" "$demo" && flags="--cfg sentinel_verif"
export CARGO_TARGET_DIR="$wt/target-demo"
echo "== demo with change (expect failure); RUSTFLAGS='$flags'" >> "$log"
RUSTFLAGS="$flags" timeout 2400 cargo test -p sentinel-tower --offline --test "$demoname" > "$log.demo_with" 2>&1; rc_with=$?
tail -5 "$log.demo_with" >> "$log"
git apply -R "$out/patch.diff"
echo "== demo without change (expect pass)" >> "$log"
RUSTFLAGS="$flags" timeout 2400 cargo test -p sentinel-tower --offline --test "$demoname" > "$log.demo_without" 2>&1; rc_without=$?
tail -5 "$log.demo_without" >> "$log"
echo "RESULT suite='$suite' demo_with_rc=$rc_with demo_without_rc=$rc_without" | tee -a "$log"
cd /; git -C /repo worktree remove --force "$wt"; rm -rf "$wt"
