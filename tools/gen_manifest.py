#!/usr/bin/env python3
"""Regenerate /verif/MANIFEST.json from tools/registry.py and properties.jsonl."""
import json
import os
import subprocess
import sys

ROOT = os.path.dirname(os.path.dirname(os.path.abspath(__file__)))
sys.path.insert(0, os.path.join(ROOT, "tools"))
from registry import CHECKS, NOT_APPLICABLE  # noqa: E402

props = [json.loads(l) for l in open(os.path.join(ROOT, "properties.jsonl"))]
ids = [p["id"] for p in props]

hook_commits = subprocess.run(
    ["git", "-C", "/repo", "log", "--format=%h %s", "--grep=^verif hook"],
    stdout=subprocess.PIPE, text=True).stdout.strip().splitlines()

checks = []
for pid in ids:
    if pid not in CHECKS:
        continue
    c = CHECKS[pid]
    checks.append({
        "property_id": pid,
        "quick_cmd": f"./check {pid} quick",
        "thorough_cmd": f"./check {pid} thorough",
        "evidence_file": f"/verif/evidence/{pid}.json",
        "replay_cmd_template": f"./check {pid} --replay {{path}}",
        "engine": c.get("engine", "monitors"),
        "level_claimed": {"category": c["level"], "text": c["level_text"], "design_ref": c["design_ref"]},
        "level_note": c["level_note"],
        "technique": c["technique"],
    })

na = []
for pid in ids:
    if pid in CHECKS:
        continue
    na.append({"property_id": pid, "reason": NOT_APPLICABLE.get(pid, "monitor not built yet (planned in DESIGN.md); not claimed")})

manifest = {
    "version": 1,
    "setup_cmd": "./check --build-all",
    "hooks": {
        "guard": "--cfg sentinel_verif (all hooks) and --cfg sentinel_verif_sched (schedulable build: crate::vsync facade switches std::sync for shuttle)",
        "enable": "the ./check driver sets RUSTFLAGS=\"--cfg sentinel_verif\" (plus \"--cfg sentinel_verif_sched\" for C14-C16) and builds /verif/harness, which path-depends on /repo/sentinel-core and /repo/middleware/tower",
        "baseline_off_cmd": "cd /repo && cargo test --workspace --no-fail-fast --offline",
        "source_commits": hook_commits,
        "add_only": False,
    },
    "engines": [
        {"name": "monitors", "path": "/verif/harness", "serves_properties": [c["property_id"] for c in checks],
         "kind_free_text": "Rust harness binaries driving the real sentinel-core under a virtual clock / controlled scheduler, with reference-model, trace and metamorphic oracles; ./check merges shards, matches KNOWN_FINDINGS.txt and writes evidence"},
    ],
    "checks": checks,
    "not_applicable": na,
    "notes": "Technique family: runtime monitoring and sanitizers. Exit codes of ./check: 0 held (KNOWN-FINDING lines allowed), 1 VIOLATION, 2 inconclusive. See DESIGN.md.",
}
with open(os.path.join(ROOT, "MANIFEST.json"), "w") as f:
    json.dump(manifest, f, indent=1)
    f.write("\n")
print(f"claimed: {len(checks)}  not_applicable: {len(na)}")
