//! C18 — rules and metric lines survive serialisation round trips unchanged.
//!
//! Monitor: generated rules of all five families (every enum variant, boundary
//! numbers, unicode / quote / backslash / separator-containing names, override
//! maps) go through serde_json::to_string -> datasource::rule_json_array_parser;
//! the result must be equal (PartialEq + id), byte-identical when serialised
//! again, and enforce a short history identically. Documents with dropped or
//! reordered keys, wrong types and truncation at EVERY byte must give defaults /
//! the same rule / an error — never a panic. Metric items go through
//! Display -> MetricItem::from_string.

use common::{fresh_name, Opts, Report, Rng, T0_MS};
use sentinel_core::base::{MetricItem, ResourceType, SentinelRule};
use sentinel_core::datasource::rule_json_array_parser;
use sentinel_core::{circuitbreaker as cb, flow, hotspot, isolation, system, EntryBuilder};
use seq::*;
use serde_json::{json, Value};
use std::collections::HashMap;
use std::sync::Arc;

const NAMES: &[&str] = &[
    "plain",
    "with space",
    " leading",
    "trailing ",
    "tab\tinside",
    "a|b|c",
    "|",
    "quote\"d",
    "back\\slash",
    "ünïcödé-资源-🚦",
    "\u{3000}wide\u{3000}",
    "/api/v1/users/{id}?x=1&y=2",
    "comma,colon:brace{}[]",
    "",
];

fn name(rng: &mut Rng) -> String {
    if rng.chance(1, 6) {
        // random unicode scalar values (no line breaks: outside the quantifier)
        (0..rng.range(1, 6))
            .map(|_| loop {
                let c = char::from_u32(rng.below(0x2FFFF) as u32);
                if let Some(c) = c {
                    if c != '\n' && c != '\r' {
                        break c;
                    }
                }
            })
            .collect()
    } else {
        (*rng.pick(NAMES)).to_string()
    }
}

fn f64s(rng: &mut Rng) -> f64 {
    match rng.below(8) {
        0 => *rng.pick(&[0.0, -0.0, 0.1, 0.5, 1.0, 1e-7, 1e6, 123456.789, 1e300, f64::MAX, f64::MIN_POSITIVE, 5e-324, 0.30000000000000004, 1.0 / 3.0]),
        1 => -(rng.f01() * 100.0),
        2 => f64::from_bits(rng.next() >> 2), // arbitrary finite positive doubles
        3 => (rng.below(1_000_000) as f64) / 1000.0,
        _ => rng.f01() * 10f64.powi(rng.range(0, 12) as i32 - 3),
    }
}

fn u64s(rng: &mut Rng) -> u64 {
    *rng.pick(&[0u64, 1, 2, 10, 1000, 1 << 32, (1 << 53) - 1, 1 << 53, (1 << 53) + 1, i64::MAX as u64, i64::MAX as u64 + 1, u64::MAX - 1, u64::MAX])
}

fn u32s(rng: &mut Rng) -> u32 {
    *rng.pick(&[0u32, 1, 2, 500, 1000, 600_000, i32::MAX as u32, u32::MAX])
}

trait Fam: Sized + Default + SentinelRule + serde::Serialize + serde::de::DeserializeOwned + PartialEq + Clone + 'static {
    const NAME: &'static str;
    fn gen(rng: &mut Rng) -> Self;
    fn id(&self) -> &str;
    /// true if the rule holds a `#[serde(skip)]` variant (cannot be serialised at all)
    fn unserialisable(&self) -> bool {
        false
    }
    /// load the rule (as the only rule of its resource) and run a short history, returning the decisions
    fn enforce(_r: &Arc<Self>, _rng_seed: u64) -> Option<String> {
        None
    }
}

fn run_history(res: &str, seed: u64) -> String {
    let mut rng = Rng::new(seed);
    let mut out = String::new();
    let mut open = vec![];
    for _ in 0..24 {
        match rng.below(4) {
            0 => VClock::advance_ms(*rng.pick(&[1u64, 200, 600, 1100])),
            1 => {
                if !open.is_empty() {
                    let e: sentinel_core::base::EntryStrongPtr = open.remove(0);
                    if rng.chance(1, 2) {
                        e.set_err(sentinel_core::Error::msg("e"));
                    }
                    e.exit();
                }
            }
            _ => {
                let before = VClock::now_ns();
                let r = EntryBuilder::new(res.to_string())
                    .with_batch_count(*rng.pick(&[1u32, 1, 2]))
                    .with_args(Some(vec![(*rng.pick(&["a", "b"])).to_string()]))
                    .build();
                let w = VClock::now_ns() - before;
                match r {
                    Ok(e) => {
                        open.push(e);
                        out.push_str(&format!("P{w};"));
                    }
                    Err(_) => out.push_str(&format!("B{w};")),
                }
            }
        }
    }
    for e in open {
        e.exit();
    }
    out
}

impl Fam for flow::Rule {
    const NAME: &'static str = "flow";
    fn gen(rng: &mut Rng) -> Self {
        flow::Rule {
            id: if rng.chance(1, 4) { name(rng) } else { flow::Rule::default().id },
            resource: name(rng),
            ref_resource: if rng.chance(1, 3) { name(rng) } else { String::new() },
            calculate_strategy: *rng.pick(&[flow::CalculateStrategy::Direct, flow::CalculateStrategy::WarmUp, flow::CalculateStrategy::MemoryAdaptive, flow::CalculateStrategy::Custom(3)]),
            control_strategy: *rng.pick(&[flow::ControlStrategy::Reject, flow::ControlStrategy::Throttling, flow::ControlStrategy::Custom(9)]),
            relation_strategy: *rng.pick(&[flow::RelationStrategy::Current, flow::RelationStrategy::Associated]),
            threshold: f64s(rng),
            warm_up_period_sec: u32s(rng),
            warm_up_cold_factor: u32s(rng),
            max_queueing_time_ms: u32s(rng),
            stat_interval_ms: u32s(rng),
            low_mem_usage_threshold: u64s(rng),
            high_mem_usage_threshold: u64s(rng),
            mem_low_water_mark: u64s(rng),
            mem_high_water_mark: u64s(rng),
        }
    }
    fn id(&self) -> &str {
        &self.id
    }
    fn unserialisable(&self) -> bool {
        matches!(self.calculate_strategy, flow::CalculateStrategy::Custom(_)) || matches!(self.control_strategy, flow::ControlStrategy::Custom(_))
    }
    fn enforce(r: &Arc<Self>, seed: u64) -> Option<String> {
        // an enforceable variant of the generated rule: sane numbers, current resource
        if r.is_valid().is_err() || r.relation_strategy == flow::RelationStrategy::Associated || r.calculate_strategy == flow::CalculateStrategy::MemoryAdaptive {
            return None;
        }
        if !(r.threshold >= 0.0 && r.threshold <= 1e6) || r.warm_up_period_sec > 20 || r.warm_up_cold_factor > 10 || r.stat_interval_ms > 600_000 || r.max_queueing_time_ms > 2000 || r.resource.is_empty() {
            return None;
        }
        flow::load_rules_of_resource(&r.resource, vec![r.clone()]).ok()?;
        let t = run_history(&r.resource, seed);
        flow::clear_rules_of_resource(&r.resource);
        Some(t)
    }
}

impl Fam for isolation::Rule {
    const NAME: &'static str = "isolation";
    fn gen(rng: &mut Rng) -> Self {
        isolation::Rule {
            id: if rng.chance(1, 4) { name(rng) } else { isolation::Rule::default().id },
            resource: name(rng),
            metric_type: isolation::MetricType::Concurrency,
            threshold: *rng.pick(&[0u32, 1, 2, 3, u32::MAX]),
        }
    }
    fn id(&self) -> &str {
        &self.id
    }
    fn enforce(r: &Arc<Self>, seed: u64) -> Option<String> {
        if r.is_valid().is_err() {
            return None;
        }
        isolation::load_rules_of_resource(&r.resource, vec![r.clone()]).ok()?;
        let t = run_history(&r.resource, seed);
        isolation::clear_rules_of_resource(&r.resource);
        Some(t)
    }
}

impl Fam for hotspot::Rule {
    const NAME: &'static str = "hotspot";
    fn gen(rng: &mut Rng) -> Self {
        let mut items = HashMap::new();
        for _ in 0..rng.below(4) {
            items.insert(name(rng), u64s(rng));
        }
        hotspot::Rule {
            id: if rng.chance(1, 4) { name(rng) } else { hotspot::Rule::default().id },
            resource: name(rng),
            metric_type: *rng.pick(&[hotspot::MetricType::Concurrency, hotspot::MetricType::QPS]),
            control_strategy: *rng.pick(&[hotspot::ControlStrategy::Reject, hotspot::ControlStrategy::Throttling, hotspot::ControlStrategy::Custom(1)]),
            param_index: *rng.pick(&[0isize, 1, -1, 3, -3, isize::MAX, isize::MIN]),
            param_key: if rng.chance(1, 2) { name(rng) } else { String::new() },
            threshold: u64s(rng),
            max_queueing_time_ms: u64s(rng),
            burst_count: u64s(rng),
            duration_in_sec: *rng.pick(&[0u64, 1, 2, 600, u64::MAX]),
            params_max_capacity: *rng.pick(&[0usize, 1, 16, 20_000, usize::MAX]),
            specific_items: items,
        }
    }
    fn id(&self) -> &str {
        &self.id
    }
    fn unserialisable(&self) -> bool {
        matches!(self.control_strategy, hotspot::ControlStrategy::Custom(_))
    }
    fn enforce(r: &Arc<Self>, seed: u64) -> Option<String> {
        if r.is_valid().is_err() || r.resource.is_empty() || r.duration_in_sec > 600 || r.params_max_capacity > 20_000 || r.threshold > 1_000_000 || r.burst_count > 1_000_000 || r.max_queueing_time_ms > 2000 || r.param_index.unsigned_abs() > 3 {
            return None;
        }
        if r.specific_items.values().any(|v| *v > 1_000_000) {
            return None;
        }
        hotspot::load_rules_of_resource(&r.resource, vec![r.clone()]).ok()?;
        let t = run_history(&r.resource, seed);
        hotspot::clear_rules_of_resource(&r.resource);
        Some(t)
    }
}

impl Fam for cb::Rule {
    const NAME: &'static str = "circuitbreaker";
    fn gen(rng: &mut Rng) -> Self {
        cb::Rule {
            id: if rng.chance(1, 4) { name(rng) } else { cb::Rule::default().id },
            resource: name(rng),
            strategy: *rng.pick(&[cb::BreakerStrategy::SlowRequestRatio, cb::BreakerStrategy::ErrorRatio, cb::BreakerStrategy::ErrorCount, cb::BreakerStrategy::Custom(2)]),
            retry_timeout_ms: u32s(rng),
            min_request_amount: u64s(rng),
            stat_interval_ms: u32s(rng),
            stat_sliding_window_bucket_count: u32s(rng),
            max_allowed_rt_ms: u64s(rng),
            threshold: f64s(rng),
        }
    }
    fn id(&self) -> &str {
        &self.id
    }
    fn unserialisable(&self) -> bool {
        matches!(self.strategy, cb::BreakerStrategy::Custom(_))
    }
    fn enforce(r: &Arc<Self>, seed: u64) -> Option<String> {
        if r.is_valid().is_err() || r.resource.is_empty() || r.stat_interval_ms > 600_000 || r.retry_timeout_ms > 600_000 || r.stat_sliding_window_bucket_count > 1000 {
            return None;
        }
        cb::load_rules_of_resource(&r.resource, vec![r.clone()]).ok()?;
        let t = run_history(&r.resource, seed);
        cb::clear_rules_of_resource(&r.resource);
        Some(t)
    }
}

impl Fam for system::Rule {
    const NAME: &'static str = "system";
    fn gen(rng: &mut Rng) -> Self {
        system::Rule {
            id: if rng.chance(1, 4) { name(rng) } else { system::Rule::default().id },
            metric_type: *rng.pick(&[system::MetricType::Load, system::MetricType::AvgRT, system::MetricType::Concurrency, system::MetricType::InboundQPS, system::MetricType::CpuUsage]),
            threshold: f64s(rng),
            strategy: *rng.pick(&[system::AdaptiveStrategy::NoAdaptive, system::AdaptiveStrategy::BBR]),
        }
    }
    fn id(&self) -> &str {
        &self.id
    }
}

/// top-level keys of object `idx` in a JSON array document, with their raw text spans
fn keys_of(doc: &Value) -> Vec<String> {
    doc.as_object().map(|m| m.keys().cloned().collect()).unwrap_or_default()
}

fn one_family<F: Fam>(rng: &mut Rng, rep: &mut Report, base: u64) {
    let n = rng.range(1, 3) as usize;
    let rules: Vec<F> = (0..n).map(|_| F::gen(rng)).collect();
    let case = |extra: Value| json!({"family": F::NAME, "rules": rules.iter().map(|r| format!("{r:?}")).collect::<Vec<_>>(), "step": extra});
    let fam = F::NAME;
    let ser = common::catch(|| serde_json::to_string(&rules));
    let ser = match ser {
        Err(p) => {
            rep.case(None, || Value::Null);
            rep.violation(&format!("panic/{fam}/serialise/{}", common::panic_site(&p)), p, case(json!("serialise")));
            return;
        }
        Ok(r) => r,
    };
    let any_unser = rules.iter().any(|r| r.unserialisable());
    let doc = match ser {
        Err(e) => {
            // a #[serde(skip)] variant: failing cleanly is the contract
            if !any_unser {
                rep.violation(&format!("{fam}/serialisable-rule-refused"), e.to_string(), case(json!("serialise")));
            }
            rep.case(Some(format!("{fam}|unserialisable-variant")), || case(json!("serialise")));
            return;
        }
        Ok(d) => d,
    };
    if any_unser {
        rep.violation(&format!("{fam}/skip-variant-serialised"), doc.clone(), case(json!("serialise")));
    }
    // ---- round trip through the datasource parser
    let parsed = match common::catch(|| rule_json_array_parser::<F>(&doc)) {
        Err(p) => {
            rep.case(None, || Value::Null);
            rep.violation(&format!("panic/{fam}/parse/{}", common::panic_site(&p)), p, case(json!({"doc": doc})));
            return;
        }
        Ok(Err(e)) => {
            rep.case(None, || Value::Null);
            rep.violation(&format!("{fam}/round-trip/own-output-rejected"), format!("{e}"), case(json!({"doc": doc})));
            return;
        }
        Ok(Ok(p)) => p,
    };
    let mut ok = parsed.len() == rules.len();
    let mut why = String::new();
    if ok {
        for (a, b) in rules.iter().zip(parsed.iter()) {
            if a != b.as_ref() || a.id() != b.id() {
                ok = false;
                why = format!("original {a:?} parsed {b:?}");
                break;
            }
        }
    }
    if !ok {
        rep.case(None, || Value::Null);
        rep.violation(&format!("{fam}/round-trip/parsed-rule-differs"), why, case(json!({"doc": doc})));
        return;
    }
    let again = serde_json::to_string(&parsed.iter().map(|r| r.as_ref().clone()).collect::<Vec<F>>()).unwrap_or_default();
    // same document again (compared as JSON values: the key order of override maps is not significant)
    if serde_json::from_str::<Value>(&again).ok() != serde_json::from_str::<Value>(&doc).ok() {
        rep.violation(&format!("{fam}/round-trip/reserialised-document-differs"), format!("first {doc}\nsecond {again}"), case(json!("reserialise")));
        return;
    }
    // ---- enforced identically (original first, parsed copy after a long idle gap)
    let mut enforced = false;
    VClock::set_ms(base);
    let seed = rng.next();
    let orig = Arc::new(rules[0].clone());
    // (a panic while a rule is being enforced is C12's business, but it must not take the shard down:
    // it is reported here as well, as a violation of "enforced identically", and the shard stops)
    let e1 = match common::catch(|| F::enforce(&orig, seed)) {
        Ok(t) => t,
        Err(p) => {
            rep.violation(&format!("{fam}/enforcement-panics/{}", common::panic_site(&p)), format!("enforcing the original rule panicked: {p}"), case(json!("enforce")));
            rep.notes.push("stopped after a panic inside the library".into());
            return;
        }
    };
    if let Some(t1) = e1 {
        VClock::set_ms(base + 200_000);
        let e2 = match common::catch(|| F::enforce(&parsed[0], seed)) {
            Ok(t) => t,
            Err(p) => {
                rep.violation(&format!("{fam}/enforcement-panics/{}", common::panic_site(&p)), format!("enforcing the parsed rule panicked: {p}"), case(json!("enforce")));
                return;
            }
        };
        if let Some(t2) = e2 {
            enforced = true;
            if t1 != t2 {
                rep.violation(&format!("{fam}/enforcement-differs-after-round-trip"), format!("original: {t1}\nparsed:   {t2}"), case(json!("enforce")));
                return;
            }
        }
    }
    // ---- mutated documents
    let v: Value = serde_json::from_str(&doc).unwrap();
    let first = v[0].clone();
    let keys = keys_of(&first);
    let mut mutated = 0u64;
    // dropped key -> default value of that field, others unchanged
    for k in &keys {
        let mut o = first.clone();
        o.as_object_mut().unwrap().remove(k);
        let d = Value::Array(vec![o]).to_string();
        mutated += 1;
        match common::catch(|| rule_json_array_parser::<F>(&d)) {
            Err(p) => {
                rep.violation(&format!("panic/{fam}/parse-dropped-key/{}", common::panic_site(&p)), p, case(json!({"doc": d})));
                return;
            }
            Ok(Err(e)) => {
                rep.violation(&format!("{fam}/dropped-key-not-defaulted"), format!("key {k}: {e}"), case(json!({"doc": d})));
                return;
            }
            Ok(Ok(p)) => {
                // re-serialise and compare field by field with the default document
                let back: Value = serde_json::to_value(p[0].as_ref()).unwrap();
                let def: Value = serde_json::to_value(F::default()).unwrap();
                if k != "id" && back[k] != def[k] {
                    rep.violation(&format!("{fam}/dropped-key-not-defaulted"), format!("key {k}: got {}, default {}", back[k], def[k]), case(json!({"doc": d})));
                    return;
                }
                for k2 in &keys {
                    if k2 != k && back[k2] != first[k2] {
                        rep.violation(&format!("{fam}/dropped-key-changes-another-field"), format!("dropping {k} changed {k2}: {} -> {}", first[k2], back[k2]), case(json!({"doc": d})));
                        return;
                    }
                }
            }
        }
    }
    // reordered keys -> the same rule
    {
        let mut pairs: Vec<(String, Value)> = first.as_object().unwrap().iter().map(|(k, v)| (k.clone(), v.clone())).collect();
        rng.shuffle(&mut pairs);
        let body: Vec<String> = pairs.iter().map(|(k, v)| format!("{}:{}", Value::String(k.clone()), v)).collect();
        let d = format!("[{{{}}}]", body.join(","));
        mutated += 1;
        match common::catch(|| rule_json_array_parser::<F>(&d)) {
            Err(p) => {
                rep.violation(&format!("panic/{fam}/parse-reordered/{}", common::panic_site(&p)), p, case(json!({"doc": d})));
                return;
            }
            Ok(Err(e)) => {
                rep.violation(&format!("{fam}/reordered-keys-rejected"), format!("{e}"), case(json!({"doc": d})));
                return;
            }
            Ok(Ok(p)) => {
                if p[0].as_ref() != &rules[0] || p[0].id() != rules[0].id() {
                    rep.violation(&format!("{fam}/reordered-keys-change-the-rule"), format!("{:?} vs {:?}", p[0], rules[0]), case(json!({"doc": d})));
                    return;
                }
            }
        }
    }
    // wrong types -> error
    for k in &keys {
        let mut o = first.clone();
        let wrong = match &first[k] {
            Value::String(_) => json!(12345),
            Value::Number(_) => json!("not-a-number"),
            Value::Object(_) => json!([1, 2]),
            _ => json!({"x": 1}),
        };
        o[k] = wrong;
        let d = Value::Array(vec![o]).to_string();
        mutated += 1;
        match common::catch(|| rule_json_array_parser::<F>(&d)) {
            Err(p) => {
                rep.violation(&format!("panic/{fam}/parse-wrong-type/{}", common::panic_site(&p)), p, case(json!({"doc": d})));
                return;
            }
            Ok(Ok(_)) => {
                rep.violation(&format!("{fam}/wrong-type-accepted"), format!("key {k}"), case(json!({"doc": d})));
                return;
            }
            Ok(Err(_)) => {}
        }
    }
    // truncation at every byte (char boundaries; a cut inside a UTF-8 sequence cannot be a &str)
    let mut cuts = 0u64;
    for cut in 0..doc.len() {
        if !doc.is_char_boundary(cut) {
            continue;
        }
        cuts += 1;
        match common::catch(|| rule_json_array_parser::<F>(&doc[..cut])) {
            Err(p) => {
                rep.violation(&format!("panic/{fam}/parse-truncated/{}", common::panic_site(&p)), p, case(json!({"doc": doc, "cut": cut})));
                return;
            }
            Ok(Ok(_)) => {
                rep.violation(&format!("{fam}/truncated-document-accepted"), format!("prefix of {cut} bytes accepted"), case(json!({"doc": doc, "cut": cut})));
                return;
            }
            Ok(Err(_)) => {}
        }
    }
    rep.count("mutated_documents", mutated);
    rep.count("truncation_points", cuts);
    let hard_name = rules.iter().any(|r| format!("{r:?}").contains('|') || format!("{r:?}").contains("\\\\") || !format!("{r:?}").is_ascii());
    rep.case(Some(format!("{fam}|n{n}|enforced{}|hardname{}", enforced as u8, hard_name as u8)), || case(json!({"doc": doc})));
}

fn metric_items(rng: &mut Rng, rep: &mut Report) {
    let res = name(rng);
    let rt = rng.below(7) as u8;
    let ts = *rng.pick(&[0u64, 1, 999, 1_700_000_000_000, 1_700_000_000_123, 4_000_000_000_000, 253_402_300_799_000]);
    let item = MetricItem::verif_new(res.clone(), ResourceType::from(rt), ts, u64s(rng), u64s(rng), u64s(rng), u64s(rng), u64s(rng), u64s(rng), *rng.pick(&[0u32, 1, 77, u32::MAX]));
    let case = json!({"item": format!("{item:?}")});
    let line = match common::catch(|| item.to_string()) {
        Ok(l) => l,
        Err(p) => {
            rep.case(None, || Value::Null);
            rep.violation(&format!("panic/metric/format/{}", common::panic_site(&p)), p, case);
            return;
        }
    };
    let back = match common::catch(|| MetricItem::from_string(&line)) {
        Err(p) => {
            rep.case(None, || Value::Null);
            rep.violation(&format!("panic/metric/parse/{}", common::panic_site(&p)), p, case);
            return;
        }
        Ok(Err(e)) => {
            rep.case(None, || Value::Null);
            rep.violation("metric/own-line-rejected", format!("{e}: {line}"), case);
            return;
        }
        Ok(Ok(b)) => b,
    };
    let mut want = item.verif_fields();
    want.0 = want.0.replace('|', "_");
    if back.verif_fields() != want {
        rep.violation("metric/parsed-item-differs", format!("line {line:?}\nwritten {:?}\nparsed  {:?}", want, back.verif_fields()), case.clone());
    }
    // truncated lines: error or an item, never a panic
    for cut in 0..line.len() {
        if line.is_char_boundary(cut) {
            if let Err(p) = common::catch(|| MetricItem::from_string(&line[..cut])) {
                rep.violation(&format!("panic/metric/parse-truncated/{}", common::panic_site(&p)), p, case.clone());
                break;
            }
        }
    }
    rep.count("metric_lines", 1);
    rep.case(Some(format!("metric|sep{}|ws{}|ascii{}|type{rt}", res.contains('|') as u8, (res != res.trim()) as u8, res.is_ascii() as u8)), || case);
}

fn main() {
    let opts = Opts::parse();
    common::install_panic_capture();
    let mut rep = Report::new("C18", &opts);
    VClock::install(T0_MS);
    let mut rng = opts.rng();
    let n = if opts.thorough() { 60_000 } else { 4_000 };
    let mut base = T0_MS + 1_000_000_000 * (1 + opts.shard);
    for i in 0..n {
        if rep.over_budget() {
            break;
        }
        base += 1_000_000;
        let mut crng = rng.derive();
        match i % 6 {
            0 => one_family::<flow::Rule>(&mut crng, &mut rep, base),
            1 => one_family::<isolation::Rule>(&mut crng, &mut rep, base),
            2 => one_family::<hotspot::Rule>(&mut crng, &mut rep, base),
            3 => one_family::<cb::Rule>(&mut crng, &mut rep, base),
            4 => one_family::<system::Rule>(&mut crng, &mut rep, base),
            _ => {
                for _ in 0..20 {
                    metric_items(&mut crng, &mut rep);
                }
            }
        }
        if i % 200 == 199 {
            sentinel_core::stat::reset_resource_map();
        }
    }
    let _ = fresh_name("x");
    rep.finish()
}
