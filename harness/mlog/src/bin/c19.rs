//! C19 — metric log: written items can be searched back; a torn tail loses one line.
//!
//! Part A (reference model): generated write sequences through the real
//! DefaultMetricLogWriter (virtual clock, per-case directory); after every write
//! the harness stats the directory, so it knows from observation which file each
//! item went to and which files retention removed; every query of both search
//! calls on a fresh DefaultMetricSearcher is compared with the list computed from
//! that record.
//! Part B (fault enumeration over crash points): the same kind of write sequence
//! runs in a child process under `strace` (openat / write / unlink), the parsed
//! log is the ground-truth program order of file creations, removals and bytes;
//! for EVERY prefix of that stream the directory is materialised and searched.

use common::{Opts, Report, Rng, T0_MS};
use sentinel_core::base::{MetricItem, ResourceType};
use sentinel_core::config::{self, ConfigEntity};
use sentinel_core::log::{DefaultMetricLogWriter, DefaultMetricSearcher, MetricLogWriter, MetricSearcher};
use sentinel_core::utils::verif_clock;
use serde_json::{json, Value};
use std::collections::BTreeMap;
use std::path::{Path, PathBuf};

const APP: &str = "c19app";
const BASE: &str = "c19app-metrics.log";

#[derive(Clone, Debug)]
struct WriteOp {
    ts: u64,
    /// (resource, pass, block, complete, error, rt, concurrency)
    items: Vec<(String, u64, u64, u64, u64, u64, u32)>,
}

#[derive(Clone, Debug)]
struct Case {
    create_ms: u64,
    max_size: u64,
    max_files: usize,
    writes: Vec<WriteOp>,
}

impl Case {
    fn to_json(&self) -> Value {
        json!({"create_ms": self.create_ms, "max_size": self.max_size, "max_files": self.max_files,
               "writes": self.writes.iter().map(|w| json!([w.ts, w.items])).collect::<Vec<_>>()})
    }
    fn from_json(v: &Value) -> Case {
        Case {
            create_ms: v["create_ms"].as_u64().unwrap(),
            max_size: v["max_size"].as_u64().unwrap(),
            max_files: v["max_files"].as_u64().unwrap() as usize,
            writes: v["writes"]
                .as_array()
                .unwrap()
                .iter()
                .map(|w| WriteOp {
                    ts: w[0].as_u64().unwrap(),
                    items: w[1]
                        .as_array()
                        .unwrap()
                        .iter()
                        .map(|i| (i[0].as_str().unwrap().to_string(), i[1].as_u64().unwrap(), i[2].as_u64().unwrap(), i[3].as_u64().unwrap(), i[4].as_u64().unwrap(), i[5].as_u64().unwrap(), i[6].as_u64().unwrap() as u32))
                        .collect(),
                })
                .collect(),
        }
    }
}

const RESOURCES: &[&str] = &["/api/a", "svc.b", "c|d", "res-e"];

fn gen_case(rng: &mut Rng, small: bool) -> Case {
    // creation instant: mostly mid-day, sometimes close to midnight UTC so that a day change happens
    let day = 86_400_000u64;
    let base_day = (T0_MS / day + rng.below(300)) * day;
    let create_ms = if rng.chance(1, 4) { base_day + day - rng.range(1, 4) * 1000 - rng.below(1000) } else { base_day + 3_600_000 * rng.range(1, 20) + rng.below(1000) };
    let nsec = if small { rng.range(1, 4) } else { rng.range(2, 14) };
    let mut writes = vec![];
    let mut t = create_ms - create_ms % 1000;
    for _ in 0..nsec {
        t += 1000 * *rng.pick(&[1u64, 1, 1, 2, 5]);
        let m = if small { rng.range(1, 2) } else { rng.range(1, 4) } as usize;
        let mut items = vec![];
        for k in 0..m {
            items.push((RESOURCES[(k + rng.below(2) as usize) % RESOURCES.len()].to_string(), rng.below(1000), rng.below(50), rng.below(1000), rng.below(9), rng.below(300), rng.below(20) as u32));
        }
        // now and then the same second is written twice (allowed: appended under the same index entry)
        let ts = t + if rng.chance(1, 5) { rng.below(1000) } else { 0 };
        writes.push(WriteOp { ts, items });
        if rng.chance(1, 8) {
            let again = writes.last().unwrap().clone();
            writes.push(again);
        }
    }
    Case {
        create_ms,
        max_size: *rng.pick(&[120u64, 200, 350, 600, 1_000_000]),
        max_files: rng.range(1, 4) as usize,
        writes,
    }
}

fn configure(dir: &str) {
    let mut e = ConfigEntity::new();
    e.config.app.app_name = APP.into();
    e.config.log.metric.dir = dir.to_string();
    e.config.log.metric.use_pid = false;
    e.config.log.metric.flush_interval_sec = 0;
    config::reset_global_config(e);
}

fn items_of(w: &WriteOp) -> Vec<MetricItem> {
    w.items
        .iter()
        .map(|(r, p, b, c, e, rt, conc)| MetricItem::verif_new(r.clone(), ResourceType::Common, 0, *p, *b, *c, *e, *rt, 0, *conc))
        .collect()
}

fn list_dir(dir: &str) -> BTreeMap<String, u64> {
    let mut m = BTreeMap::new();
    if let Ok(rd) = std::fs::read_dir(dir) {
        for f in rd.flatten() {
            if let (Some(n), Ok(md)) = (f.file_name().to_str().map(|s| s.to_string()), f.metadata()) {
                m.insert(n, md.len());
            }
        }
    }
    m
}

/// run the writes of a case against the real writer in `dir`
fn perform_writes(case: &Case, dir: &str, mut observe: impl FnMut(usize, &WriteOp)) -> Result<(), String> {
    configure(dir);
    verif_clock::install(case.create_ms as i64 * 1_000_000);
    let mut w = DefaultMetricLogWriter::new(case.max_size, case.max_files).map_err(|e| format!("writer creation failed: {e}"))?;
    for (i, op) in case.writes.iter().enumerate() {
        verif_clock::set_ns(op.ts as i64 * 1_000_000);
        let mut items = items_of(op);
        w.write(op.ts, &mut items).map_err(|e| format!("write #{i} failed: {e}"))?;
        observe(i, op);
    }
    Ok(())
}

type Fields = (String, u8, u64, u64, u64, u64, u64, u64, u64, u32);

#[derive(Clone, Debug)]
struct Rec {
    sec: u64,
    fields: Fields,
    file: String,
}

fn expect_fields(ts: u64, it: &(String, u64, u64, u64, u64, u64, u32)) -> Fields {
    (it.0.replace('|', "_"), 0, ts, it.1, it.2, it.3, it.4, it.5, 0, it.6)
}

fn searcher(dir: &str) -> DefaultMetricSearcher {
    DefaultMetricSearcher::new(dir.to_string(), BASE.to_string()).expect("searcher")
}

fn subsequence(needle: &[Fields], hay: &[Fields]) -> bool {
    let mut i = 0;
    for h in hay {
        if i < needle.len() && *h == needle[i] {
            i += 1;
        }
    }
    i == needle.len()
}

// ------------------------------------------------------------------ part A

fn part_a(case: &Case, dir: &str, rng: &mut Rng) -> (Option<String>, Option<(String, String)>, u64) {
    let mut recs: Vec<Rec> = vec![];
    let mut before: BTreeMap<String, u64> = BTreeMap::new();
    let mut rolled_size = false;
    let mut rolled_day = false;
    let mut removed_files = 0usize;
    let mut unattributed: Option<String> = None;
    let mut created_order: Vec<String> = vec![];
    let mut last_sec_written = 0u64;
    let creation_sec = case.create_ms / 1000;
    let r = common::catch(|| {
        perform_writes(case, dir, |_i, op| {
            let after = list_dir(dir);
            if before.is_empty() {
                // first observation: whatever exists was created by initialise()
            }
            // files in creation order (new names as they appear)
            for n in after.keys() {
                if !n.ends_with(".idx") && !created_order.contains(n) {
                    created_order.push(n.clone());
                }
            }
            // which metric file grew? (a file that was written and then removed by retention
            // in the same call shows up as "disappeared")
            let grown: Vec<&String> = after
                .iter()
                .filter(|(n, len)| !n.ends_with(".idx") && **len > *before.get(*n).unwrap_or(&0))
                .map(|(n, _)| n)
                .collect();
            let gone: Vec<&String> = before.keys().filter(|n| !n.ends_with(".idx") && !after.contains_key(*n)).collect();
            if op.ts / 1000 >= creation_sec {
                let target: Option<String> = match (grown.as_slice(), gone.as_slice()) {
                    ([f], _) => Some((*f).clone()),
                    ([], [g]) => Some((*g).clone()),
                    ([], gs) if !gs.is_empty() => Some(gs[gs.len() - 1].clone()),
                    ([], []) => {
                        // an ignored write (older than the last written second) changes nothing
                        if op.ts / 1000 < last_sec_written {
                            None
                        } else if before.is_empty() {
                            // first observation: the file that was written had been created by
                            // the constructor and was removed by retention within this very call
                            Some("<removed before it was observed>".to_string())
                        } else {
                            unattributed = Some(format!("write at {} changed no metric file", op.ts));
                            None
                        }
                    }
                    (more, _) => {
                        unattributed = Some(format!("write at {} grew several files {more:?}", op.ts));
                        None
                    }
                };
                if let Some(f) = target {
                    for it in &op.items {
                        recs.push(Rec { sec: op.ts / 1000, fields: expect_fields(op.ts, it), file: f.clone() });
                    }
                    last_sec_written = last_sec_written.max(op.ts / 1000);
                }
            }
            for n in before.keys() {
                if !after.contains_key(n) && !n.ends_with(".idx") {
                    removed_files += 1;
                }
            }
            let nfiles = after.keys().filter(|n| !n.ends_with(".idx")).count();
            if nfiles > before.keys().filter(|n| !n.ends_with(".idx")).count() || after.keys().any(|n| !before.contains_key(n) && !n.ends_with(".idx")) {
                if !before.is_empty() {
                    let newest_is_new_day = after.keys().filter(|n| !n.ends_with(".idx")).map(|n| n.split('.').nth(2).unwrap_or("").to_string()).collect::<std::collections::BTreeSet<_>>().len() > 1;
                    if newest_is_new_day {
                        rolled_day = true;
                    } else {
                        rolled_size = true;
                    }
                }
            }
            before = after;
        })
    });
    match r {
        Err(p) => return (None, Some((format!("panic/writer/{}", common::panic_site(&p)), p)), 0),
        Ok(Err(e)) => return (None, Some(("writer/error".into(), e)), 0),
        Ok(Ok(())) => {}
    }
    if let Some(u) = unattributed {
        return (None, Some(("writer/write-not-attributable".into(), u)), 0);
    }
    let present = list_dir(dir);
    // the newest max_files files (in creation order, the current one included) must still be on disk
    let mut files_in_order: Vec<String> = vec![];
    for r in &recs {
        if !files_in_order.contains(&r.file) {
            files_in_order.push(r.file.clone());
        }
    }
    for f in created_order.iter().rev().take(case.max_files) {
        if !present.contains_key(f) {
            return (None, Some(("retention/recent-file-removed".into(), format!("file {f} is among the newest {} files created ({created_order:?}) but is gone; directory {:?}", case.max_files, present.keys().collect::<Vec<_>>()))), 0);
        }
    }
    let alive: Vec<&Rec> = recs.iter().filter(|r| present.contains_key(&r.file) && r.sec > creation_sec).collect();
    let mut queries = 0u64;
    let secs: Vec<u64> = alive.iter().map(|r| r.sec).collect();
    let (lo, hi) = match (secs.iter().min(), secs.iter().max()) {
        (Some(a), Some(b)) => (*a, *b),
        _ => return (None, None, 0),
    };
    let mut viol = None;
    // one long-lived searcher answers every query as well (its position cache is carried from query to query)
    let long_lived = searcher(dir);
    // ---- query grid: every (begin, end) pair over the written seconds +-1, a few resources
    let mut points: Vec<u64> = secs.clone();
    points.push(lo.saturating_sub(1));
    points.push(hi + 1);
    points.sort();
    points.dedup();
    'q: for (bi, b) in points.iter().enumerate() {
        for e in &points[bi..] {
            for res in ["", "/api/a", "c_d", "svc.b", "nope"] {
                if rng.chance(2, 3) && points.len() > 6 {
                    continue;
                }
                let (bms, ems) = (b * 1000 + rng.below(1000), e * 1000 + rng.below(1000));
                queries += 1;
                let got = match common::catch(|| searcher(dir).find_by_time_and_resource(bms, ems, res)) {
                    Err(p) => {
                        viol = Some((format!("panic/search-by-time/{}", common::panic_site(&p)), p));
                        break 'q;
                    }
                    Ok(Err(err)) => {
                        viol = Some(("search-by-time/error".into(), format!("find_by_time_and_resource({bms},{ems},{res:?}) -> {err}")));
                        break 'q;
                    }
                    Ok(Ok(v)) => v,
                };
                let want: Vec<Fields> = alive.iter().filter(|r| r.sec >= *b && r.sec <= *e && (res.is_empty() || r.fields.0 == res)).map(|r| r.fields.clone()).collect();
                let gotf: Vec<Fields> = got.iter().map(|i| i.verif_fields()).collect();
                if gotf != want {
                    let kind = if gotf.len() < want.len() { "misses-written-items" } else if gotf.len() > want.len() { "returns-items-outside-the-query" } else { "wrong-items-or-order" };
                    let ctx = if files_in_order.len() > 1 { "across-files" } else { "single-file" };
                    viol = Some((
                        format!("search-by-time/{kind}/{ctx}"),
                        format!("find_by_time_and_resource(begin sec {b} (+{}), end sec {e}, {res:?}): got {} items, written and retained {}; files {:?}; first got {:?}; first want {:?}", *b as i64 - lo as i64, gotf.len(), want.len(), files_in_order, gotf.first(), want.first()),
                    ));
                    break 'q;
                }
                queries += 1;
                let got2 = match common::catch(|| long_lived.find_by_time_and_resource(bms, ems, res)) {
                    Err(p) => {
                        viol = Some((format!("panic/search-by-time/reused-searcher/{}", common::panic_site(&p)), p));
                        break 'q;
                    }
                    Ok(Err(err)) => {
                        viol = Some(("search-by-time/reused-searcher/error".into(), format!("a searcher that had answered {} queries before: find_by_time_and_resource({bms},{ems},{res:?}) -> {err}", queries - 1)));
                        break 'q;
                    }
                    Ok(Ok(v)) => v,
                };
                let gotf2: Vec<Fields> = got2.iter().map(|i| i.verif_fields()).collect();
                if gotf2 != want {
                    let ctx = if files_in_order.len() > 1 { "across-files" } else { "single-file" };
                    viol = Some((
                        format!("search-by-time/reused-searcher/{}/{ctx}", if gotf2.len() < want.len() { "misses-written-items" } else { "wrong-items" }),
                        format!("a long-lived searcher (previous queries moved its position cache) find_by_time_and_resource(begin sec {b} (+{}), end sec {e}, {res:?}): got {} items, a fresh searcher and the reference {}; files {:?}", *b as i64 - lo as i64, gotf2.len(), want.len(), files_in_order),
                    ));
                    break 'q;
                }
            }
        }
    }
    if viol.is_none() {
        'm: for b in &points {
            for n in [1usize, 2, 3, 5, 1000] {
                queries += 1;
                let bms = b * 1000 + rng.below(1000);
                let got = match common::catch(|| searcher(dir).find_from_time_with_max_lines(bms, n)) {
                    Err(p) => {
                        viol = Some((format!("panic/search-max-lines/{}", common::panic_site(&p)), p));
                        break 'm;
                    }
                    Ok(Err(err)) => {
                        viol = Some(("search-max-lines/error".into(), format!("find_from_time_with_max_lines({bms},{n}) -> {err}")));
                        break 'm;
                    }
                    Ok(Ok(v)) => v,
                };
                let all: Vec<Fields> = alive.iter().filter(|r| r.sec >= *b).map(|r| r.fields.clone()).collect();
                let gotf: Vec<Fields> = got.iter().map(|i| i.verif_fields()).collect();
                let is_prefix = gotf.len() <= all.len() && gotf[..] == all[..gotf.len()];
                let long_enough = gotf.len() >= n.min(all.len());
                if !is_prefix || !long_enough {
                    let kind = if !is_prefix { "not-a-prefix-of-the-written-items" } else { "returns-fewer-lines-than-available" };
                    let ctx = if files_in_order.len() > 1 { "across-files" } else { "single-file" };
                    viol = Some((
                        format!("search-max-lines/{kind}/{ctx}"),
                        format!("find_from_time_with_max_lines(begin sec {b} (+{}), {n}): got {} items, {} written at or after it; files {:?}", *b as i64 - lo as i64, gotf.len(), all.len(), files_in_order),
                    ));
                    break 'm;
                }
                queries += 1;
                let got2 = match common::catch(|| long_lived.find_from_time_with_max_lines(bms, n)) {
                    Err(p) => {
                        viol = Some((format!("panic/search-max-lines/reused-searcher/{}", common::panic_site(&p)), p));
                        break 'm;
                    }
                    Ok(Err(err)) => {
                        viol = Some(("search-max-lines/reused-searcher/error".into(), format!("long-lived searcher: find_from_time_with_max_lines({bms},{n}) -> {err}")));
                        break 'm;
                    }
                    Ok(Ok(v)) => v,
                };
                let gotf2: Vec<Fields> = got2.iter().map(|i| i.verif_fields()).collect();
                let is_prefix2 = gotf2.len() <= all.len() && gotf2[..] == all[..gotf2.len()];
                if !is_prefix2 || gotf2.len() < n.min(all.len()) {
                    let ctx = if files_in_order.len() > 1 { "across-files" } else { "single-file" };
                    viol = Some((
                        format!("search-max-lines/reused-searcher/{}/{ctx}", if !is_prefix2 { "not-a-prefix-of-the-written-items" } else { "returns-fewer-lines-than-available" }),
                        format!("a long-lived searcher find_from_time_with_max_lines(begin sec {b} (+{}), {n}): got {} items, {} written at or after it; files {:?}", *b as i64 - lo as i64, gotf2.len(), all.len(), files_in_order),
                    ));
                    break 'm;
                }
            }
        }
    }
    let sig = format!(
        "A|files{}|size-roll{}|day-roll{}|removed{}|maxfiles{}|secs{}",
        files_in_order.len().min(4),
        rolled_size as u8,
        rolled_day as u8,
        (removed_files > 0) as u8,
        case.max_files,
        match secs.len() { 0..=2 => "s", 3..=8 => "m", _ => "l" }
    );
    (Some(sig), viol, queries)
}

// ------------------------------------------------------------------ part B

#[derive(Debug, Clone)]
enum FsOp {
    Create(String),
    Write(String, Vec<u8>),
    Unlink(String),
}

fn unescape(s: &str) -> Vec<u8> {
    // strace -xx: every byte as \xNN
    let b = s.as_bytes();
    let mut out = Vec::with_capacity(b.len() / 4);
    let mut i = 0;
    while i + 3 < b.len() + 0 {
        if b[i] == b'\\' && b[i + 1] == b'x' {
            let h = std::str::from_utf8(&b[i + 2..i + 4]).unwrap_or("00");
            out.push(u8::from_str_radix(h, 16).unwrap_or(0));
            i += 4;
        } else {
            out.push(b[i]);
            i += 1;
        }
    }
    out
}

fn parse_strace(log: &str, dir: &str) -> Vec<FsOp> {
    let dir_x: String = dir.bytes().map(|b| format!("\\x{b:02x}")).collect();
    let mut ops = vec![];
    for line in log.lines() {
        // strip "pid " prefix if present
        let l = line.trim_start_matches(|c: char| c.is_ascii_digit() || c == ' ');
        if l.starts_with("openat(") {
            // openat(AT_FDCWD, "\x2f...", O_WRONLY|O_CREAT|O_TRUNC|O_CLOEXEC, 0666) = 3</path>
            if let (Some(a), Some(_)) = (l.find('"'), l.rfind(" = ")) {
                let rest = &l[a + 1..];
                if let Some(b) = rest.find('"') {
                    let path_x = &rest[..b];
                    if path_x.starts_with(&dir_x) && l.contains("O_CREAT") && !l.contains("= -1") {
                        ops.push(FsOp::Create(String::from_utf8_lossy(&unescape(path_x)).to_string()));
                    }
                }
            }
        } else if l.starts_with("write(") {
            // write(3</path/to/file>, "\x..", 57) = 57
            if let (Some(a), Some(b)) = (l.find('<'), l.find('>')) {
                // with -xx the fd annotation is hex-escaped as well
                let path_owned = String::from_utf8_lossy(&unescape(&l[a + 1..b])).to_string();
                let path = path_owned.as_str();
                if path.starts_with(dir) {
                    if let Some(q) = l[b..].find('"') {
                        let rest = &l[b + q + 1..];
                        if let Some(e) = rest.find('"') {
                            let bytes = unescape(&rest[..e]);
                            // trust the return value for short writes
                            let n: usize = l.rsplit(" = ").next().and_then(|x| x.trim().parse().ok()).unwrap_or(bytes.len());
                            ops.push(FsOp::Write(path.to_string(), bytes[..n.min(bytes.len())].to_vec()));
                        }
                    }
                }
            }
        } else if l.starts_with("unlink(") || l.starts_with("unlinkat(") {
            if let Some(a) = l.find('"') {
                let rest = &l[a + 1..];
                if let Some(b) = rest.find('"') {
                    let path_x = &rest[..b];
                    if path_x.starts_with(&dir_x) && !l.contains("= -1") {
                        ops.push(FsOp::Unlink(String::from_utf8_lossy(&unescape(path_x)).to_string()));
                    }
                }
            }
        }
    }
    ops
}

/// what is completely on disk in the materialised state: items with complete line whose
/// second has a complete index entry; plus all complete lines (for the "nothing invented" check)
fn complete_content(dir: &str) -> (Vec<Fields>, Vec<Fields>) {
    let present = list_dir(dir);
    let mut indexed_secs: std::collections::BTreeSet<u64> = Default::default();
    for (n, _) in present.iter().filter(|(n, _)| n.ends_with(".idx")) {
        if let Ok(b) = std::fs::read(Path::new(dir).join(n)) {
            for ch in b.chunks(16) {
                if ch.len() == 16 {
                    indexed_secs.insert(u64::from_be_bytes(ch[..8].try_into().unwrap()));
                }
            }
        }
    }
    let mut names: Vec<&String> = present.keys().filter(|n| !n.ends_with(".idx")).collect();
    // files in creation order: date, then numeric suffix
    names.sort_by_key(|n| {
        let parts: Vec<&str> = n.split('.').collect();
        (parts.get(2).map(|s| s.to_string()).unwrap_or_default(), parts.get(3).and_then(|s| s.parse::<u64>().ok()).unwrap_or(0))
    });
    let mut must = vec![];
    let mut all = vec![];
    for n in names {
        if let Ok(b) = std::fs::read(Path::new(dir).join(n)) {
            let text = String::from_utf8_lossy(&b).to_string();
            let complete = match text.rfind('\n') {
                Some(i) => &text[..i + 1],
                None => "",
            };
            for line in complete.lines() {
                if let Ok(it) = MetricItem::from_string(line) {
                    let f = it.verif_fields();
                    if indexed_secs.contains(&(f.2 / 1000)) {
                        must.push(f.clone());
                    }
                    all.push(f);
                }
            }
        }
    }
    (must, all)
}

fn part_b(case: &Case, scratch: &str, tag: &str) -> (Option<String>, Option<(String, String)>, u64, Value) {
    let wdir = format!("{scratch}/b-write-{tag}/");
    let mdir = format!("{scratch}/b-mat-{tag}/");
    let _ = std::fs::remove_dir_all(&wdir);
    let _ = std::fs::remove_dir_all(&mdir);
    std::fs::create_dir_all(&wdir).unwrap();
    let case_file = format!("{scratch}/b-case-{tag}.json");
    std::fs::write(&case_file, json!({"case": case.to_json(), "dir": wdir}).to_string()).unwrap();
    let trace = format!("{scratch}/b-trace-{tag}.log");
    let exe = std::env::current_exe().unwrap();
    let st = std::process::Command::new("strace")
        .args(["-f", "-y", "-xx", "-s", "65536", "-o", &trace, "-e", "trace=openat,write,unlink,unlinkat", "--"])
        .arg(&exe)
        .args(["--child-write", &case_file])
        .status();
    let info = json!({"strace": format!("{st:?}")});
    match st {
        Ok(s) if s.success() => {}
        other => return (None, None, 0, json!({"inconclusive": format!("strace/child failed: {other:?}")})),
    }
    let log = std::fs::read_to_string(&trace).unwrap_or_default();
    let ops = parse_strace(&log, &wdir);
    let total: usize = ops.iter().map(|o| if let FsOp::Write(_, b) = o { b.len() } else { 0 }).sum();
    // sanity: replaying the whole stream must reproduce the directory the child left behind
    let final_child = list_dir(&wdir);
    if ops.is_empty() || total == 0 {
        return (None, None, 0, json!({"inconclusive": "strace log contained no writes into the case directory"}));
    }
    std::fs::create_dir_all(&mdir).unwrap();
    let map = |p: &str| -> PathBuf { Path::new(&mdir).join(Path::new(p).file_name().unwrap()) };
    let lo = case.writes.iter().map(|w| w.ts).min().unwrap_or(0) / 1000;
    let hi = case.writes.iter().map(|w| w.ts).max().unwrap_or(0) / 1000;
    let mut points = 0u64;
    let mut viol: Option<(String, String)> = None;
    let mut torn_index_seen = false;
    let mut torn_line_seen = false;
    let mut check = |pos: String, viol: &mut Option<(String, String)>, points: &mut u64| {
        *points += 1;
        let (must, all) = complete_content(&mdir);
        for which in 0..2 {
            let r = common::catch(|| {
                let s = DefaultMetricSearcher::new(mdir.clone(), BASE.to_string()).expect("searcher");
                if which == 0 {
                    s.find_by_time_and_resource(lo.saturating_sub(1) * 1000, (hi + 1) * 1000 + 999, "")
                } else {
                    s.find_from_time_with_max_lines(lo.saturating_sub(1) * 1000, 1_000_000)
                }
            });
            let name = if which == 0 { "by-time" } else { "max-lines" };
            match r {
                Err(p) => {
                    *viol = Some((format!("crash/panic/{name}/{}", common::panic_site(&p)), format!("at crash point {pos}: {p}")));
                    return;
                }
                Ok(Err(_)) => {
                    // an error is tolerated only when nothing complete is on disk yet
                    if !must.is_empty() {
                        *viol = Some((format!("crash/{name}/error-although-complete-items-exist"), format!("at crash point {pos}: {} complete indexed items on disk", must.len())));
                        return;
                    }
                }
                Ok(Ok(v)) => {
                    let got: Vec<Fields> = v.iter().map(|i| i.verif_fields()).collect();
                    if !subsequence(&must, &got) {
                        *viol = Some((
                            format!("crash/{name}/completely-written-item-not-returned"),
                            format!("at crash point {pos}: {} items are completely written with their index entry, the search returned {} items (not containing them in order)", must.len(), got.len()),
                        ));
                        return;
                    }
                    let invented = got.iter().filter(|g| !all.contains(g)).count();
                    if invented > 1 {
                        *viol = Some((format!("crash/{name}/more-than-the-torn-line-misread"), format!("at crash point {pos}: {invented} returned items are not complete lines on disk")));
                        return;
                    }
                }
            }
        }
    };
    let mut consumed = 0usize;
    'ops: for (oi, op) in ops.iter().enumerate() {
        match op {
            FsOp::Create(p) => {
                std::fs::write(map(p), b"").unwrap();
                check(format!("after op {oi} create {p}"), &mut viol, &mut points);
            }
            FsOp::Unlink(p) => {
                let _ = std::fs::remove_file(map(p));
                check(format!("after op {oi} unlink {p}"), &mut viol, &mut points);
            }
            FsOp::Write(p, bytes) => {
                use std::io::Write;
                let is_idx = p.ends_with(".idx");
                for (k, b) in bytes.iter().enumerate() {
                    let mut f = std::fs::OpenOptions::new().append(true).create(true).open(map(p)).unwrap();
                    f.write_all(&[*b]).unwrap();
                    drop(f);
                    consumed += 1;
                    if k + 1 < bytes.len() {
                        if is_idx {
                            torn_index_seen = true;
                        } else {
                            torn_line_seen = true;
                        }
                    }
                    check(format!("byte {consumed}/{total} (op {oi}, {} bytes into a write of {} to {p})", k + 1, bytes.len()), &mut viol, &mut points);
                    if viol.is_some() {
                        break 'ops;
                    }
                }
            }
        }
        if viol.is_some() {
            break;
        }
    }
    // the full replay must equal what the child really left on disk
    if viol.is_none() {
        let mat = list_dir(&mdir);
        if mat != final_child {
            return (None, None, points, json!({"inconclusive": format!("replaying the strace log gives {mat:?}, the child left {final_child:?}")}));
        }
    }
    let _ = std::fs::remove_dir_all(&wdir);
    let _ = std::fs::remove_dir_all(&mdir);
    let _ = std::fs::remove_file(&case_file);
    let _ = std::fs::remove_file(&trace);
    let nfiles = ops.iter().filter(|o| matches!(o, FsOp::Create(p) if !p.ends_with(".idx"))).count();
    let sig = format!("B|files{}|unlinks{}|torn-idx{}|torn-line{}|bytes{}", nfiles.min(4), ops.iter().any(|o| matches!(o, FsOp::Unlink(_))) as u8, torn_index_seen as u8, torn_line_seen as u8, match total { 0..=300 => "s", 301..=1200 => "m", _ => "l" });
    (Some(sig), viol, points, info)
}

fn main() {
    let opts = Opts::parse();
    // child mode: just perform the writes of a case (traced by strace)
    if let Some(f) = opts.flag("child-write") {
        let v: Value = serde_json::from_str(&std::fs::read_to_string(f).unwrap()).unwrap();
        let case = Case::from_json(&v["case"]);
        let dir = v["dir"].as_str().unwrap().to_string();
        let r = perform_writes(&case, &dir, |_, _| {});
        std::process::exit(if r.is_ok() { 0 } else { 3 });
    }
    common::install_panic_capture();
    common::install_logger();
    let mut rep = Report::new("C19", &opts);
    let scratch = std::env::var("VERIF_SCRATCH").unwrap_or_else(|_| "/tmp/c19-scratch".into());
    std::fs::create_dir_all(&scratch).unwrap();
    let mut rng = opts.rng();
    if let Some(path) = &opts.replay {
        let v: Value = serde_json::from_str(&std::fs::read_to_string(path).unwrap()).unwrap();
        let case = Case::from_json(&v["case"]);
        let dir = format!("{scratch}/replay/");
        let _ = std::fs::remove_dir_all(&dir);
        let (sig, viol, q) = part_a(&case, &dir, &mut rng);
        rep.count("search_queries_compared", q);
        rep.case(sig, || case.to_json());
        if let Some((s, d)) = viol {
            rep.violation(&s, d, case.to_json());
        } else {
            let (sig, viol, points, _) = part_b(&case, &scratch, "replay");
            rep.count("crash_points_enumerated", points);
            rep.case(sig, || case.to_json());
            if let Some((s, d)) = viol {
                rep.violation(&s, d, case.to_json());
            }
        }
        if std::env::var("VERIF_KEEP").is_err() {
            let _ = std::fs::remove_dir_all(&dir);
        }
        rep.finish();
    }
    let thorough = opts.thorough();
    let na = if thorough { 4_000 } else { 400 };
    let nb = if thorough { 300 } else { 30 };
    let only_part = opts.flag("part").map(|s| s.to_string());
    if only_part.as_deref() != Some("b") {
        for i in 0..na {
            if rep.over_budget() {
                break;
            }
            let case = gen_case(&mut rng, false);
            let dir = format!("{scratch}/a-{i}/");
            let _ = std::fs::remove_dir_all(&dir);
            let mut crng = rng.derive();
            let (sig, viol, q) = part_a(&case, &dir, &mut crng);
            let _ = std::fs::remove_dir_all(&dir);
            rep.count("search_queries_compared", q);
            rep.count("write_sequences", 1);
            rep.case(sig, || case.to_json());
            if let Some((s, d)) = viol {
                rep.violation(&s, d, case.to_json());
            }
        }
    }
    if only_part.as_deref() != Some("a") {
        for i in 0..nb {
            if rep.over_budget() {
                break;
            }
            let case = gen_case(&mut rng, !thorough || i % 3 != 0);
            let (sig, viol, points, info) = part_b(&case, &scratch, &format!("{}-{i}", opts.shard));
            rep.count("crash_points_enumerated", points);
            rep.count("traced_write_sequences", 1);
            if let Some(w) = info.get("inconclusive") {
                rep.inconclusive(format!("part B case {i}: {w}"));
            }
            rep.case(sig, || case.to_json());
            if let Some((s, d)) = viol {
                rep.violation(&s, d, case.to_json());
            }
        }
    }
    rep.finish()
}
