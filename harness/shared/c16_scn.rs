// C16 scenarios and oracles, shared by the scheduled monitor (sched/src/bin/c16.rs, `thread` =
// shuttle::thread) and the real-thread stress half (seq/src/bin/c16s.rs, `thread` = a gated
// std::thread). The including file provides: thread, set_ms, advance_ms, found, clear_everything
// and the imports below.

#[derive(Clone, Copy, Debug, PartialEq)]
enum St {
    Closed,
    HalfOpen,
    Open,
}

fn st(s: cb::State) -> St {
    match s {
        cb::State::Closed => St::Closed,
        cb::State::HalfOpen => St::HalfOpen,
        cb::State::Open => St::Open,
    }
}

/// (prev, next)
type Events = Arc<Mutex<Vec<(St, St)>>>;

struct Rec(Events);
impl cb::StateChangeListener for Rec {
    fn on_transform_to_closed(&self, p: cb::State, _r: Arc<cb::Rule>) {
        self.0.lock().unwrap().push((st(p), St::Closed));
    }
    fn on_transform_to_open(&self, p: cb::State, _r: Arc<cb::Rule>, _s: Option<Arc<sentinel_core::base::Snapshot>>) {
        self.0.lock().unwrap().push((st(p), St::Open));
    }
    fn on_transform_to_half_open(&self, p: cb::State, _r: Arc<cb::Rule>) {
        self.0.lock().unwrap().push((st(p), St::HalfOpen));
    }
}

#[derive(Clone, Copy, Debug)]
enum Kind {
    /// k in-flight entries complete with an error at once; each alone would open the breaker
    Open { k: usize },
    /// breaker Open; k requests arrive, the retry timeout having elapsed or not
    Probe { k: usize, arrived: bool },
    /// breaker HalfOpen with the probe in flight and a stale entry in flight:
    /// the probe completes (ok / error), the stale one completes (ok / error), n requests arrive
    Race { probe_err: bool, stale_err: bool, n: usize },
    /// breaker Open and retry elapsed: k requests arrive while a stale entry completes with an error
    ProbeVsStale { k: usize },
    /// breaker Open and retry elapsed, a flow rule rejects everything: k requests become probes
    /// that are rolled back by their exit hook, racing with a stale completion (ok / error)
    RejectedProbeVsStale { k: usize, stale_err: bool },
}

#[derive(Clone, Copy, Debug)]
struct Scn {
    kind: Kind,
    strategy: u8,
}

impl Scn {
    fn name(&self) -> String {
        format!("{:?}|s{}", self.kind, self.strategy).replace(' ', "")
    }
}

const RES: &str = "c16-res";

fn rule(strategy: u8) -> Arc<cb::Rule> {
    Arc::new(cb::Rule {
        resource: RES.into(),
        strategy: [cb::BreakerStrategy::ErrorCount, cb::BreakerStrategy::ErrorRatio, cb::BreakerStrategy::SlowRequestRatio][strategy as usize],
        threshold: if strategy == 0 { 1.0 } else { 0.01 },
        stat_interval_ms: 10_000,
        retry_timeout_ms: 1_000,
        min_request_amount: 1,
        max_allowed_rt_ms: 50,
        ..Default::default()
    })
}

/// complete an entry as a failure for the given strategy ("slow" needs elapsed time, handled by the caller's clock)
fn fail(e: &EntryStrongPtr) {
    e.set_err(sentinel_core::Error::msg("x"));
}

fn enter() -> Result<EntryStrongPtr, String> {
    EntryBuilder::new(RES.to_string()).build().map_err(|e| e.to_string())
}

fn scenario(s: Scn) {
    set_ms(T0_MS);
    let events: Events = Arc::new(Mutex::new(vec![]));
    cb::register_state_change_listeners(vec![Arc::new(Rec(events.clone()))]);
    cb::load_rules(vec![rule(s.strategy)]);
    let name = s.name();
    let slow = s.strategy == 2;
    // admitted[i] = true if the i-th concurrent request got an entry
    let admitted: Arc<Mutex<Vec<bool>>> = Arc::new(Mutex::new(vec![]));
    let mut expected_initial = St::Closed;
    let mut hs = vec![];
    // entries deliberately left in flight: kept until the scenario ends, then dropped (never leaked: a
    // leaked entry pins its statistics node for the rest of the process)
    let kept: Arc<Mutex<Vec<EntryStrongPtr>>> = Arc::new(Mutex::new(vec![]));
    let spawn_requests = |hs: &mut Vec<thread::JoinHandle<()>>, n: usize, complete_err: Option<bool>| {
        for _ in 0..n {
            let admitted = admitted.clone();
            let kept = kept.clone();
            hs.push(thread::spawn(move || match enter() {
                Ok(e) => {
                    admitted.lock().unwrap().push(true);
                    if let Some(err) = complete_err {
                        if err {
                            fail(&e);
                        }
                        e.exit();
                    } else {
                        kept.lock().unwrap().push(e);
                    }
                }
                Err(_) => admitted.lock().unwrap().push(false),
            }));
        }
    };
    // helper: bring the breaker to Open at T0 (one failing completion)
    let open_it = || {
        let e = enter().expect("closed breaker admits");
        if slow {
            advance_ms(100);
        }
        fail(&e);
        e.exit();
    };
    match s.kind {
        Kind::Open { k } => {
            let entries: Vec<EntryStrongPtr> = (0..k).map(|_| enter().expect("closed breaker admits")).collect();
            if slow {
                advance_ms(100);
            }
            for e in entries {
                hs.push(thread::spawn(move || {
                    fail(&e);
                    e.exit();
                }));
            }
        }
        Kind::Probe { k, arrived } => {
            open_it();
            expected_initial = St::Open;
            advance_ms(if arrived { 1_000 } else { 999 });
            events.lock().unwrap().clear();
            spawn_requests(&mut hs, k, None);
        }
        Kind::ProbeVsStale { k } => {
            let stale = enter().expect("closed breaker admits");
            open_it();
            expected_initial = St::Open;
            advance_ms(1_000);
            events.lock().unwrap().clear();
            spawn_requests(&mut hs, k, None);
            hs.push(thread::spawn(move || {
                fail(&stale);
                stale.exit();
            }));
        }
        Kind::RejectedProbeVsStale { k, stale_err } => {
            let stale = enter().expect("closed breaker admits");
            open_it();
            expected_initial = St::Open;
            sentinel_core::flow::load_rules(vec![Arc::new(sentinel_core::flow::Rule { resource: RES.into(), threshold: 0.0, ..Default::default() })]);
            advance_ms(1_000);
            events.lock().unwrap().clear();
            spawn_requests(&mut hs, k, None);
            hs.push(thread::spawn(move || {
                if stale_err {
                    fail(&stale);
                }
                stale.exit();
            }));
        }
        Kind::Race { probe_err, stale_err, n } => {
            let stale = enter().expect("closed breaker admits");
            open_it();
            advance_ms(1_000);
            let probe = enter().expect("the first request after the retry timeout is the probe");
            expected_initial = St::HalfOpen;
            events.lock().unwrap().clear();
            if slow && probe_err {
                advance_ms(100);
            }
            hs.push(thread::spawn(move || {
                if probe_err {
                    fail(&probe);
                }
                probe.exit();
            }));
            hs.push(thread::spawn(move || {
                if stale_err {
                    fail(&stale);
                }
                stale.exit();
            }));
            spawn_requests(&mut hs, n, Some(false));
        }
    }
    for h in hs {
        h.join().expect("scenario thread");
    }
    // ---- oracles
    let ev = events.lock().unwrap().clone();
    let adm = admitted.lock().unwrap().clone();
    let n_adm = adm.iter().filter(|a| **a).count();
    let breaker = cb::get_breakers_of_resource(&RES.to_string()).pop().expect("breaker");
    let fin = st(breaker.current_state());
    let mut cur = expected_initial;
    for (i, (p, n)) in ev.iter().enumerate() {
        if *p != cur {
            found(
                "listener/not-a-path-of-the-machine",
                format!("{name}: event #{i} announces {p:?}->{n:?} but the previous events left the breaker {cur:?}; all events {ev:?}"),
            );
            break;
        }
        let legal = matches!((p, n), (St::Closed, St::Open) | (St::Open, St::HalfOpen) | (St::HalfOpen, St::Open) | (St::HalfOpen, St::Closed));
        if !legal {
            found("listener/illegal-transition", format!("{name}: {p:?}->{n:?}"));
        }
        cur = *n;
    }
    if cur != fin && ev.iter().enumerate().all(|(i, (p, _))| i == 0 || *p == ev[i - 1].1) {
        found("listener/final-state-differs-from-announced", format!("{name}: listeners saw the breaker end {cur:?}, current_state() is {fin:?}; events {ev:?}"));
    }
    let n_half = ev.iter().filter(|e| e.1 == St::HalfOpen).count();
    let n_open_from_closed = ev.iter().filter(|e| *e == &(St::Closed, St::Open)).count();
    match s.kind {
        Kind::Open { k } => {
            if n_open_from_closed != 1 || ev.len() != 1 {
                found("open/not-exactly-one-winner", format!("{name}: {k} completions that each open the breaker produced events {ev:?}"));
            }
            if fin != St::Open {
                found("open/breaker-not-open", format!("{name}: final state {fin:?}"));
            }
        }
        Kind::Probe { arrived, .. } => {
            if arrived {
                if n_adm != 1 {
                    found(if n_adm > 1 { "probe/more-than-one-probe-admitted" } else { "probe/no-probe-admitted" }, format!("{name}: {n_adm} requests admitted after the retry timeout; events {ev:?}"));
                }
                if n_half != 1 {
                    found("probe/half-open-announced-not-exactly-once", format!("{name}: events {ev:?}"));
                }
            } else if n_adm != 0 || !ev.is_empty() {
                found("open/request-admitted-before-retry-timeout", format!("{name}: {n_adm} admitted 1 ms before the retry time; events {ev:?}"));
            }
        }
        Kind::ProbeVsStale { .. } => {
            // a stale failure may re-open the breaker after a probe was admitted (HalfOpen->Open
            // with a new retry time), but every admission is one Open->HalfOpen
            if n_adm != n_half {
                found("probe/admissions-differ-from-half-open-phases", format!("{name}: {n_adm} requests admitted, {n_half} Open->HalfOpen events {ev:?}"));
            }
            // the clock does not move in this scenario: once a failed completion has re-opened
            // the breaker (new retry time = now + timeout) nothing may be admitted any more
            if let Some(pos) = ev.iter().position(|e| *e == (St::HalfOpen, St::Open)) {
                if ev[pos..].iter().any(|e| e.1 == St::HalfOpen) {
                    found("open/request-admitted-before-retry-timeout-after-reopen", format!("{name}: re-opened by a failed completion and a request was admitted at the same instant; events {ev:?}"));
                }
            } else if n_adm > 1 {
                found("probe/more-than-one-probe-admitted", format!("{name}: {n_adm} admitted; events {ev:?}"));
            }
        }
        Kind::RejectedProbeVsStale { .. } => {
            if n_adm != 0 {
                found("rejected-probe/admitted-although-another-rule-rejects", format!("{name}: {n_adm} admitted"));
            }
            // every probe phase must be left exactly once (path oracle above); the number of
            // phases cannot exceed the number of requests
            if n_half > adm.len() {
                found("rejected-probe/more-probe-phases-than-requests", format!("{name}: events {ev:?}"));
            }
        }
        Kind::Race { probe_err, stale_err, .. } => {
            // requests are admitted either as a probe (one per Open->HalfOpen) or while Closed
            let closed_seen = ev.iter().any(|e| e.1 == St::Closed);
            if !closed_seen && n_adm != n_half {
                found("race/admitted-while-not-closed-without-probe-phase", format!("{name}: breaker never closed, {n_adm} admitted, {n_half} Open->HalfOpen events {ev:?}"));
            }
            if probe_err && stale_err && closed_seen {
                found("race/closed-although-every-completion-failed", format!("{name}: events {ev:?}"));
            }
            if ev.is_empty() {
                found("race/half-open-phase-never-decided", format!("{name}: probe and stale entry completed, no transition announced, state {fin:?}"));
            }
        }
    }
    // the clock did not move during the concurrent phase: a breaker that ends Open was opened (or kept Open
    // with its retry time still ahead) at this instant, so a request now must be rejected
    if fin == St::Open && !matches!(s.kind, Kind::RejectedProbeVsStale { .. }) {
        if let Ok(e) = enter() {
            found(
                "open/request-admitted-before-retry-timeout-after-the-race",
                format!("{name}: the breaker ended Open at this instant, yet the next request was admitted; events {ev:?}, current_state() now {:?}", st(breaker.current_state())),
            );
            e.exit();
        }
    }
    kept.lock().unwrap().clear();
    clear_everything();
}

pub fn all_scenarios() -> Vec<Scn> {
    let mut scns = vec![];
    for strategy in 0..3u8 {
        for k in [2usize, 3] {
            scns.push(Scn { kind: Kind::Open { k }, strategy });
            scns.push(Scn { kind: Kind::Probe { k, arrived: true }, strategy });
            scns.push(Scn { kind: Kind::Probe { k, arrived: false }, strategy });
            scns.push(Scn { kind: Kind::ProbeVsStale { k }, strategy });
            if strategy != 2 {
                scns.push(Scn { kind: Kind::RejectedProbeVsStale { k, stale_err: false }, strategy });
            }
            scns.push(Scn { kind: Kind::RejectedProbeVsStale { k, stale_err: true }, strategy });
        }
        for probe_err in [false, true] {
            for stale_err in [false, true] {
                for n in [1usize, 2] {
                    // slow-request breakers judge by elapsed time: the stale entry (admitted long ago) is always slow
                    if strategy == 2 && !stale_err {
                        continue;
                    }
                    scns.push(Scn { kind: Kind::Race { probe_err, stale_err, n }, strategy });
                }
            }
        }
    }
    scns
}
