//! Shared plumbing for the runtime monitors: seeded PRNG, CLI, result report
//! (what the monitor actually observed), panic capture, a `log` sink.
//!
//! A monitor binary runs cases, feeds `Report`, and finally `Report::finish()`
//! writes one JSON document for the `check` driver, which merges shards, matches
//! known findings, writes the evidence file and decides the exit code.

use serde_json::{json, Map, Value};
use std::collections::{BTreeMap, BTreeSet};
use std::sync::atomic::{AtomicU64, Ordering};
use std::sync::Mutex;
use std::time::Instant;

pub mod models;

// ---------------------------------------------------------------- PRNG

/// splitmix64: tiny, seedable, good enough for workload generation.
#[derive(Clone, Debug)]
pub struct Rng(pub u64);

impl Rng {
    pub fn new(seed: u64) -> Self {
        let mut r = Rng(seed ^ 0x9E37_79B9_7F4A_7C15);
        r.next();
        r
    }
    pub fn derive(&mut self) -> Rng {
        Rng::new(self.next())
    }
    pub fn next(&mut self) -> u64 {
        self.0 = self.0.wrapping_add(0x9E37_79B9_7F4A_7C15);
        let mut z = self.0;
        z = (z ^ (z >> 30)).wrapping_mul(0xBF58_476D_1CE4_E5B9);
        z = (z ^ (z >> 27)).wrapping_mul(0x94D0_49BB_1331_11EB);
        z ^ (z >> 31)
    }
    /// uniform in 0..n (n>0)
    pub fn below(&mut self, n: u64) -> u64 {
        if n == 0 {
            0
        } else {
            self.next() % n
        }
    }
    /// uniform in lo..=hi
    pub fn range(&mut self, lo: u64, hi: u64) -> u64 {
        lo + self.below(hi - lo + 1)
    }
    pub fn chance(&mut self, num: u64, den: u64) -> bool {
        self.below(den) < num
    }
    pub fn pick<'a, T>(&mut self, xs: &'a [T]) -> &'a T {
        &xs[self.below(xs.len() as u64) as usize]
    }
    pub fn f01(&mut self) -> f64 {
        (self.next() >> 11) as f64 / (1u64 << 53) as f64
    }
    pub fn shuffle<T>(&mut self, xs: &mut [T]) {
        for i in (1..xs.len()).rev() {
            let j = self.below(i as u64 + 1) as usize;
            xs.swap(i, j);
        }
    }
}

pub fn fnv(s: &str) -> u64 {
    let mut h: u64 = 0xcbf2_9ce4_8422_2325;
    for b in s.as_bytes() {
        h ^= *b as u64;
        h = h.wrapping_mul(0x1000_0000_01b3);
    }
    h
}

// ---------------------------------------------------------------- CLI

#[derive(Clone, Debug)]
pub struct Opts {
    pub tier: String,
    pub seed: u64,
    pub shard: u64,
    pub nshards: u64,
    pub out: Option<String>,
    pub replay: Option<String>,
    /// soft wall-clock budget in ms for generated cases (0 = none)
    pub budget_ms: u64,
    pub extra: BTreeMap<String, String>,
}

impl Opts {
    pub fn parse() -> Opts {
        let mut o = Opts {
            tier: "quick".into(),
            seed: 1,
            shard: 0,
            nshards: 1,
            out: None,
            replay: None,
            budget_ms: 0,
            extra: BTreeMap::new(),
        };
        let args: Vec<String> = std::env::args().skip(1).collect();
        let mut i = 0;
        while i < args.len() {
            let a = &args[i];
            let v = args.get(i + 1).cloned().unwrap_or_default();
            match a.as_str() {
                "--tier" => o.tier = v,
                "--seed" => o.seed = v.parse().expect("--seed"),
                "--shard" => {
                    let mut it = v.split('/');
                    o.shard = it.next().unwrap().parse().expect("--shard i/n");
                    o.nshards = it.next().unwrap().parse().expect("--shard i/n");
                }
                "--out" => o.out = Some(v),
                "--replay" => o.replay = Some(v),
                "--budget-ms" => o.budget_ms = v.parse().expect("--budget-ms"),
                x if x.starts_with("--") => {
                    o.extra.insert(x[2..].to_string(), v);
                }
                _ => panic!("unknown argument {a}"),
            }
            i += 2;
        }
        o
    }
    pub fn thorough(&self) -> bool {
        self.tier == "thorough"
    }
    /// PRNG for this shard
    pub fn rng(&self) -> Rng {
        Rng::new(
            self.seed
                .wrapping_mul(1_000_003)
                .wrapping_add(self.shard.wrapping_mul(7919))
                .wrapping_add(if self.thorough() { 0x5151 } else { 0 }),
        )
    }
    pub fn flag(&self, k: &str) -> Option<&str> {
        self.extra.get(k).map(|s| s.as_str())
    }
}

// ---------------------------------------------------------------- Report

#[derive(Clone, Debug)]
pub struct Violation {
    /// stable class of the failure (call site / input class / discrepancy kind);
    /// this is what KNOWN_FINDINGS.txt is keyed on.
    pub sig: String,
    pub detail: String,
    /// the failing case, replayable
    pub case: Value,
}

pub struct Report {
    pub property: String,
    pub opts: Opts,
    pub start: Instant,
    pub evaluations: u64,
    pub nontrivial_cases: u64,
    pub signatures: BTreeSet<String>,
    pub samples: Vec<Value>,
    pub max_samples: usize,
    pub violations: Vec<Violation>,
    pub violation_counts: BTreeMap<String, u64>,
    pub counters: BTreeMap<String, u64>,
    pub notes: Vec<String>,
    pub inconclusive: Vec<String>,
    pub extra: Map<String, Value>,
}

impl Report {
    pub fn new(property: &str, opts: &Opts) -> Report {
        Report {
            property: property.into(),
            opts: opts.clone(),
            start: Instant::now(),
            evaluations: 0,
            nontrivial_cases: 0,
            signatures: BTreeSet::new(),
            samples: Vec::new(),
            max_samples: 4,
            violations: Vec::new(),
            violation_counts: BTreeMap::new(),
            counters: BTreeMap::new(),
            notes: Vec::new(),
            inconclusive: Vec::new(),
            extra: Map::new(),
        }
    }
    pub fn count(&mut self, k: &str, n: u64) {
        *self.counters.entry(k.to_string()).or_insert(0) += n;
    }
    /// one case evaluated; `sig` is Some(coverage signature) iff the case is non-trivial
    pub fn case(&mut self, sig: Option<String>, sample: impl FnOnce() -> Value) {
        self.evaluations += 1;
        if let Some(s) = sig {
            self.nontrivial_cases += 1;
            let new = self.signatures.insert(s);
            if new && self.samples.len() < self.max_samples {
                self.samples.push(sample());
            }
        }
    }
    pub fn violation(&mut self, sig: &str, detail: String, case: Value) {
        let c = self.violation_counts.entry(sig.to_string()).or_insert(0);
        *c += 1;
        // keep the first few witnesses per signature
        if *c <= 2 {
            self.violations.push(Violation {
                sig: sig.to_string(),
                detail,
                case,
            });
        }
    }
    pub fn inconclusive(&mut self, why: String) {
        if self.inconclusive.len() < 20 {
            self.inconclusive.push(why);
        }
    }
    pub fn elapsed_ms(&self) -> u64 {
        self.start.elapsed().as_millis() as u64
    }
    pub fn over_budget(&self) -> bool {
        self.opts.budget_ms > 0 && self.elapsed_ms() > self.opts.budget_ms
    }
    pub fn finish(self) -> ! {
        let v = json!({
            "property": self.property,
            "tier": self.opts.tier,
            "seed": self.opts.seed,
            "shard": self.opts.shard,
            "nshards": self.opts.nshards,
            "evaluations": self.evaluations,
            "nontrivial_cases": self.nontrivial_cases,
            "signatures": self.signatures.iter().collect::<Vec<_>>(),
            "samples": self.samples,
            "violations": self.violations.iter().map(|v| json!({
                "sig": v.sig, "detail": v.detail, "case": v.case,
            })).collect::<Vec<_>>(),
            "violation_counts": self.violation_counts,
            "counters": self.counters,
            "notes": self.notes,
            "inconclusive": self.inconclusive,
            "extra": Value::Object(self.extra),
            "wall_s": self.start.elapsed().as_secs_f64(),
        });
        let s = serde_json::to_string(&v).unwrap();
        match &self.opts.out {
            Some(p) => std::fs::write(p, s).expect("write --out"),
            None => println!("{s}"),
        }
        // process-global Sentinel state may hold threads/locks: leave at once
        std::process::exit(0)
    }
}

// ---------------------------------------------------------------- panic capture

static LAST_PANIC: Mutex<Option<String>> = Mutex::new(None);
/// the first panic since the last take: under a controlled scheduler the first panic is the cause,
/// later ones are tasks being torn down
static FIRST_PANIC: Mutex<Option<String>> = Mutex::new(None);
static PANIC_COUNT: AtomicU64 = AtomicU64::new(0);

/// Install a panic hook that records message + location instead of printing.
pub fn install_panic_capture() {
    std::panic::set_hook(Box::new(|info| {
        PANIC_COUNT.fetch_add(1, Ordering::SeqCst);
        let msg = if let Some(s) = info.payload().downcast_ref::<&str>() {
            s.to_string()
        } else if let Some(s) = info.payload().downcast_ref::<String>() {
            s.clone()
        } else {
            "<non-string panic>".to_string()
        };
        let loc = info
            .location()
            .map(|l| format!("{}:{}", l.file(), l.line()))
            .unwrap_or_default();
        let bt = if std::env::var("VERIF_BACKTRACE").is_ok() {
            format!("\n{}", std::backtrace::Backtrace::force_capture())
        } else {
            String::new()
        };
        if std::env::var("VERIF_PANIC_PRINT").is_ok() {
            eprintln!("panic: {msg} @ {loc}{bt}");
        }
        if let Ok(mut g) = FIRST_PANIC.lock() {
            if g.is_none() {
                *g = Some(format!("{msg} @ {loc}{bt}"));
            }
        }
        if let Ok(mut g) = LAST_PANIC.lock() {
            *g = Some(format!("{msg} @ {loc}{bt}"));
        }
    }));
}

pub fn take_last_panic() -> Option<String> {
    let _ = FIRST_PANIC.lock().map(|mut g| g.take());
    LAST_PANIC.lock().ok().and_then(|mut g| g.take())
}

/// the first panic since the last take (clears both records)
pub fn take_first_panic() -> Option<String> {
    let _ = LAST_PANIC.lock().map(|mut g| g.take());
    FIRST_PANIC.lock().ok().and_then(|mut g| g.take())
}

pub fn panic_count() -> u64 {
    PANIC_COUNT.load(Ordering::SeqCst)
}

/// Run `f`, turning a panic into Err(message @ file:line).
pub fn catch<R>(f: impl FnOnce() -> R) -> Result<R, String> {
    let r = std::panic::catch_unwind(std::panic::AssertUnwindSafe(f));
    match r {
        Ok(v) => Ok(v),
        Err(_) => Err(take_last_panic().unwrap_or_else(|| "<panic>".into())),
    }
}

/// Where did a panic come from: strip line numbers so the signature is stable
/// against unrelated edits ("…/flow/rule_manager.rs").
pub fn panic_site(msg: &str) -> String {
    match msg.rsplit_once(" @ ") {
        Some((_, loc)) => {
            let file = loc.rsplit_once(':').map(|x| x.0).unwrap_or(loc);
            let short = file.rsplit_once("/src/").map(|x| x.1).unwrap_or(file);
            short.to_string()
        }
        None => "?".into(),
    }
}

// ---------------------------------------------------------------- log sink

/// A `log` sink that formats every record (so Display/Debug code in log
/// statements really runs, as with any real logger) and counts them.
pub struct CountingLogger;
pub static LOG_RECORDS: AtomicU64 = AtomicU64::new(0);
pub static LOG_BYTES: AtomicU64 = AtomicU64::new(0);

impl log::Log for CountingLogger {
    fn enabled(&self, _m: &log::Metadata) -> bool {
        true
    }
    fn log(&self, record: &log::Record) {
        let s = format!("{}", record.args());
        LOG_RECORDS.fetch_add(1, Ordering::Relaxed);
        LOG_BYTES.fetch_add(s.len() as u64, Ordering::Relaxed);
    }
    fn flush(&self) {}
}

static LOGGER: CountingLogger = CountingLogger;

pub fn install_logger() {
    let _ = log::set_logger(&LOGGER);
    log::set_max_level(log::LevelFilter::Trace);
}

// ---------------------------------------------------------------- misc

static UNIQ: AtomicU64 = AtomicU64::new(0);

/// process-unique resource name
pub fn fresh_name(prefix: &str) -> String {
    format!("{}-{}", prefix, UNIQ.fetch_add(1, Ordering::SeqCst))
}

/// Base instant for virtual time (ms): 2023-11-14T22:13:20Z, a multiple of 10 s.
pub const T0_MS: u64 = 1_700_000_000_000;
