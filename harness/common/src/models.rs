//! Clean-room reference models, written from the property statements.

/// Events (time in ms, amount) recorded in a bucketed sliding window:
/// the window at `t` is the `w / bl` most recent `bl`-aligned buckets.
#[derive(Clone, Debug, Default)]
pub struct WindowLog {
    pub bl: u64,
    pub w: u64,
    pub events: Vec<(u64, u64)>,
}

impl WindowLog {
    pub fn new(bl: u64, w: u64) -> Self {
        WindowLog {
            bl,
            w,
            events: Vec::new(),
        }
    }
    pub fn bs(&self, t: u64) -> u64 {
        t - t % self.bl
    }
    /// first and last bucket start of the window that ends in the bucket of `t`
    pub fn range(&self, t: u64) -> (i128, i128) {
        let end = self.bs(t) as i128;
        (end - self.w as i128 + self.bl as i128, end)
    }
    pub fn add(&mut self, t: u64, n: u64) {
        self.events.push((t, n));
    }
    pub fn sum(&self, t: u64) -> u64 {
        let (lo, hi) = self.range(t);
        let mut s = 0u64;
        // events are in non-decreasing time order: scan from the back
        for &(te, n) in self.events.iter().rev() {
            let b = self.bs(te) as i128;
            if b < lo {
                break;
            }
            if b <= hi {
                s += n;
            }
        }
        s
    }
    /// true when some recorded event has already left the window at `t`
    pub fn rolled(&self, t: u64) -> bool {
        let (lo, _) = self.range(t);
        self.events
            .first()
            .map(|&(te, _)| (self.bs(te) as i128) < lo)
            .unwrap_or(false)
    }
    pub fn prune(&mut self, t: u64) {
        let (lo, _) = self.range(t);
        let bl = self.bl;
        let keep_from = self
            .events
            .iter()
            .position(|&(te, _)| ((te - te % bl) as i128) >= lo)
            .unwrap_or(self.events.len());
        if keep_from > 64 {
            self.events.drain(..keep_from);
        }
    }
}

/// Geometry the flow rule manager gives a Direct/Reject rule with
/// `stat_interval_ms`, under the default configuration (global ring 20 x 500 ms,
/// default metric 2 x 500 ms). Written from the documentation of
/// `stat_interval_ms` / the property's quantifier, not from the code:
/// returns (bucket length, window length, class).
pub fn flow_geometry(stat_interval_ms: u32) -> (u64, u64, &'static str) {
    let i = stat_interval_ms as u64;
    if i == 0 || i == 1000 {
        return (500, 1000, "default");
    }
    // reuse of the 10 s / 500 ms global ring: the interval must tile 10 s and be
    // a whole number of 500 ms buckets
    if 10_000 % i == 0 && i % 500 == 0 {
        return (500, i, "reuse-global");
    }
    // private window: 500 ms buckets when the interval is a multiple of 500 ms
    // strictly between one bucket and the whole ring, else a single bucket
    if i > 500 && i < 10_000 && i % 500 == 0 {
        return (500, i, "private-multi");
    }
    (i, i, "private-single")
}
