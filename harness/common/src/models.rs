//! Clean-room reference models, written from the property statements.

/// Events (time in ms, amount) recorded in a bucketed sliding window:
/// the window at `t` is the `w / bl` most recent `bl`-aligned buckets.
#[derive(Clone, Debug, Default)]
pub struct WindowLog {
    pub bl: u64,
    pub w: u64,
    pub events: Vec<(u64, u64)>,
}

impl WindowLog {
    pub fn new(bl: u64, w: u64) -> Self {
        WindowLog {
            bl,
            w,
            events: Vec::new(),
        }
    }
    pub fn bs(&self, t: u64) -> u64 {
        t - t % self.bl
    }
    /// first and last bucket start of the window that ends in the bucket of `t`
    pub fn range(&self, t: u64) -> (i128, i128) {
        let end = self.bs(t) as i128;
        (end - self.w as i128 + self.bl as i128, end)
    }
    pub fn add(&mut self, t: u64, n: u64) {
        self.events.push((t, n));
    }
    pub fn sum(&self, t: u64) -> u64 {
        let (lo, hi) = self.range(t);
        let mut s = 0u64;
        // events are in non-decreasing time order: scan from the back
        for &(te, n) in self.events.iter().rev() {
            let b = self.bs(te) as i128;
            if b < lo {
                break;
            }
            if b <= hi {
                s += n;
            }
        }
        s
    }
    /// true when some recorded event has already left the window at `t`
    pub fn rolled(&self, t: u64) -> bool {
        let (lo, _) = self.range(t);
        self.events
            .first()
            .map(|&(te, _)| (self.bs(te) as i128) < lo)
            .unwrap_or(false)
    }
    pub fn prune(&mut self, t: u64) {
        let (lo, _) = self.range(t);
        let bl = self.bl;
        let keep_from = self
            .events
            .iter()
            .position(|&(te, _)| ((te - te % bl) as i128) >= lo)
            .unwrap_or(self.events.len());
        if keep_from > 64 {
            self.events.drain(..keep_from);
        }
    }
}

/// Geometry the flow rule manager gives a Direct/Reject rule with
/// `stat_interval_ms`, under the default configuration (global ring 20 x 500 ms,
/// default metric 2 x 500 ms). Written from the documentation of
/// `stat_interval_ms` / the property's quantifier, not from the code:
/// returns (bucket length, window length, class).
pub fn flow_geometry(stat_interval_ms: u32) -> (u64, u64, &'static str) {
    let i = stat_interval_ms as u64;
    if i == 0 || i == 1000 {
        return (500, 1000, "default");
    }
    // reuse of the 10 s / 500 ms global ring: the interval must tile 10 s and be
    // a whole number of 500 ms buckets
    if 10_000 % i == 0 && i % 500 == 0 {
        return (500, i, "reuse-global");
    }
    // private window: 500 ms buckets when the interval is a multiple of 500 ms
    // strictly between one bucket and the whole ring, else a single bucket
    if i > 500 && i < 10_000 && i % 500 == 0 {
        return (500, i, "private-multi");
    }
    (i, i, "private-single")
}

// ------------------------------------------------------------------ circuit breaker

#[derive(Clone, Copy, Debug, PartialEq, Eq, Hash)]
pub enum BState {
    Closed,
    HalfOpen,
    Open,
}

#[derive(Clone, Copy, Debug, PartialEq, Eq, Hash)]
pub enum BStrategy {
    SlowRatio,
    ErrorRatio,
    ErrorCount,
}

#[derive(Clone, Debug)]
pub struct BreakerSpec {
    pub strategy: BStrategy,
    pub retry_timeout_ms: u64,
    pub min_request_amount: u64,
    pub stat_interval_ms: u64,
    pub bucket_count: u64,
    pub max_allowed_rt_ms: u64,
    pub threshold: f64,
}

impl BreakerSpec {
    /// bucket count actually used: the documented fallback is a single bucket
    /// when the count is 0 or does not divide the interval
    pub fn buckets(&self) -> u64 {
        if self.bucket_count == 0 || self.stat_interval_ms % self.bucket_count != 0 {
            1
        } else {
            self.bucket_count
        }
    }
    pub fn bl(&self) -> u64 {
        self.stat_interval_ms / self.buckets()
    }
}

/// (kind, prev) of a listener notification
#[derive(Clone, Copy, Debug, PartialEq, Eq, Hash)]
pub enum BEvent {
    ToOpen(BState),
    ToHalfOpen(BState),
    ToClosed(BState),
}

/// The documented Closed / Open / Half-Open machine.
#[derive(Clone, Debug)]
pub struct BreakerModel {
    pub spec: BreakerSpec,
    pub state: BState,
    pub next_retry: u64,
    /// bucket start -> (target, total)
    pub buckets: std::collections::BTreeMap<u64, (u64, u64)>,
    pub events: Vec<BEvent>,
}

impl BreakerModel {
    pub fn new(spec: BreakerSpec) -> Self {
        BreakerModel {
            spec,
            state: BState::Closed,
            next_retry: 0,
            buckets: Default::default(),
            events: Vec::new(),
        }
    }
    fn window_sums(&self, now: u64) -> (u64, u64) {
        let bl = self.spec.bl();
        let hi = now - now % bl;
        let lo = (hi + bl).saturating_sub(self.spec.stat_interval_ms);
        let mut t = (0, 0);
        for (_, (a, b)) in self.buckets.range(lo..=hi) {
            t.0 += a;
            t.1 += b;
        }
        t
    }
    /// a request arrives at `now`; true = this breaker lets it through
    /// (when it returns true from Open, this request is the probe)
    pub fn try_pass(&mut self, now: u64) -> (bool, bool) {
        match self.state {
            BState::Closed => (true, false),
            BState::HalfOpen => (false, false),
            BState::Open => {
                if now >= self.next_retry {
                    self.state = BState::HalfOpen;
                    self.events.push(BEvent::ToHalfOpen(BState::Open));
                    (true, true)
                } else {
                    (false, false)
                }
            }
        }
    }
    /// the probe admitted by this breaker ended up rejected by somebody else
    pub fn probe_blocked(&mut self) {
        if self.state == BState::HalfOpen {
            self.state = BState::Open;
            self.events.push(BEvent::ToOpen(BState::HalfOpen));
        }
    }
    /// an admitted request completes at `now` with response time rt and error flag
    pub fn complete(&mut self, now: u64, rt: u64, err: bool) {
        let bad = match self.spec.strategy {
            BStrategy::SlowRatio => rt > self.spec.max_allowed_rt_ms,
            _ => err,
        };
        let bl = self.spec.bl();
        let b = self.buckets.entry(now - now % bl).or_insert((0, 0));
        if bad {
            b.0 += 1;
        }
        b.1 += 1;
        let (target, total) = self.window_sums(now);
        match self.state {
            BState::HalfOpen => {
                if bad {
                    self.state = BState::Open;
                    self.next_retry = now + self.spec.retry_timeout_ms;
                    self.events.push(BEvent::ToOpen(BState::HalfOpen));
                } else {
                    self.state = BState::Closed;
                    self.events.push(BEvent::ToClosed(BState::HalfOpen));
                    self.buckets.clear();
                }
            }
            BState::Closed => {
                let met = match self.spec.strategy {
                    BStrategy::ErrorCount => target >= self.spec.threshold as u64,
                    _ => target as f64 / total as f64 >= self.spec.threshold,
                };
                if total >= self.spec.min_request_amount && met {
                    self.state = BState::Open;
                    self.next_retry = now + self.spec.retry_timeout_ms;
                    self.events.push(BEvent::ToOpen(BState::Closed));
                }
            }
            BState::Open => {}
        }
    }
}
