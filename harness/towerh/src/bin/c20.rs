//! C20 — Tower middleware calls the service iff admitted and always releases admission.
//!
//! Monitor: `SentinelService` around a scripted inner service whose calls are
//! counted and whose future resolves as {ready Ok, ready Err, pending-then-Ok,
//! pending-then-Err}; futures are polled by hand with a no-op waker, several may
//! be pending at once. An isolation rule on the extracted resource turns a leaked
//! admission into a visible rejection; the oracle is an in-flight ledger.

use common::{fresh_name, Opts, Report, Rng};
use sentinel_core::base::ConcurrencyStat;
use sentinel_core::{isolation, stat};
use sentinel_tower::{BoxError, SentinelService, ServiceRole};
use serde_json::{json, Value};
use std::collections::VecDeque;
use std::future::Future;
use std::pin::Pin;
use std::sync::atomic::{AtomicUsize, Ordering};
use std::sync::{Arc, Mutex};
use std::task::{Context, Poll, RawWaker, RawWakerVTable, Waker};
use tower::Service;

#[derive(Clone, Copy, Debug, PartialEq)]
enum Script {
    ReadyOk,
    ReadyErr,
    PendingOk(u8),
    PendingErr(u8),
}

#[derive(Clone)]
struct Req {
    resource: String,
    tag: u64,
}

#[derive(Clone)]
struct Inner {
    calls: Arc<AtomicUsize>,
    scripts: Arc<Mutex<VecDeque<Script>>>,
}

struct Scripted {
    script: Script,
    polls: u8,
    tag: u64,
}

impl Future for Scripted {
    type Output = Result<String, BoxError>;
    fn poll(mut self: Pin<&mut Self>, _cx: &mut Context<'_>) -> Poll<Self::Output> {
        let need = match self.script {
            Script::ReadyOk | Script::ReadyErr => 0,
            Script::PendingOk(n) | Script::PendingErr(n) => n,
        };
        if self.polls < need {
            self.polls += 1;
            return Poll::Pending;
        }
        match self.script {
            Script::ReadyOk | Script::PendingOk(_) => Poll::Ready(Ok(format!("resp-{}", self.tag))),
            _ => Poll::Ready(Err(format!("inner-error-{}", self.tag).into())),
        }
    }
}

impl Service<Req> for Inner {
    type Response = String;
    type Error = BoxError;
    type Future = Pin<Box<dyn Future<Output = Result<String, BoxError>> + Send>>;
    fn poll_ready(&mut self, _cx: &mut Context<'_>) -> Poll<Result<(), Self::Error>> {
        Poll::Ready(Ok(()))
    }
    fn call(&mut self, req: Req) -> Self::Future {
        self.calls.fetch_add(1, Ordering::SeqCst);
        let script = self.scripts.lock().unwrap().pop_front().expect("script for every inner call");
        Box::pin(Scripted { script, polls: 0, tag: req.tag })
    }
}

fn extract(r: &Req) -> String {
    r.resource.clone()
}

fn fallback(r: &Req, _e: sentinel_core::Error) -> Result<String, BoxError> {
    Ok(format!("fallback-{}", r.tag))
}

fn noop_waker() -> Waker {
    fn clone(_: *const ()) -> RawWaker {
        RawWaker::new(std::ptr::null(), &VTABLE)
    }
    fn noop(_: *const ()) {}
    static VTABLE: RawWakerVTable = RawWakerVTable::new(clone, noop, noop, noop);
    // SAFETY: the vtable functions never touch the data pointer
    unsafe { Waker::from_raw(RawWaker::new(std::ptr::null(), &VTABLE)) }
}

#[derive(Clone, Debug)]
enum Op {
    /// start a request whose inner outcome (if it gets that far) is the script
    Call(Script),
    /// poll pending future idx % len once
    Poll(usize),
    /// drop pending future idx % len before completion
    Drop(usize),
    /// let (virtual) time pass while requests are pending
    Adv(u64),
}

#[derive(Clone, Debug)]
struct Case {
    threshold: u32,
    with_fallback: bool,
    server: bool,
    ops: Vec<Op>,
    allow_drop: bool,
    /// the resource also has a throttling flow rule (1 request per ms, generous queueing): requests at
    /// the same instant are queued - held for a virtual millisecond or so - and then admitted like any other
    throttled: bool,
}

impl Case {
    fn to_json(&self) -> Value {
        json!({"isolation_threshold": self.threshold, "throttling_rule": self.throttled, "fallback": self.with_fallback, "role": if self.server {"Server"} else {"Client"},
               "ops": self.ops.iter().map(|o| format!("{o:?}")).collect::<Vec<_>>()})
    }
}

fn gen_case(rng: &mut Rng, long: bool) -> Case {
    let allow_drop = rng.chance(1, 5);
    let n = if long { 10 + rng.below(50) } else { 5 + rng.below(25) } as usize;
    let mut ops = vec![];
    for _ in 0..n {
        let k = rng.below(10);
        if rng.chance(1, 6) {
            ops.push(Op::Adv(*rng.pick(&[1u64, 50, 999, 10_000, 59_999, 60_000, 60_001, 300_000])));
        }
        ops.push(if k < 5 {
            Op::Call(*rng.pick(&[Script::ReadyOk, Script::ReadyErr, Script::PendingOk(1), Script::PendingErr(1), Script::PendingOk(3), Script::PendingErr(2)]))
        } else if k < 9 || !allow_drop {
            Op::Poll(rng.below(8) as usize)
        } else {
            Op::Drop(rng.below(8) as usize)
        });
    }
    Case { threshold: rng.range(1, 3) as u32, with_fallback: rng.chance(1, 2), server: rng.chance(1, 2), ops, allow_drop, throttled: rng.chance(1, 4) }
}

struct Pending {
    fut: Pin<Box<dyn Future<Output = Result<String, BoxError>> + Send>>,
    tag: u64,
    admitted: bool,
    script: Script,
}

struct Outcome {
    sig: Option<String>,
    violation: Option<(String, String)>,
    drop_observations: Vec<String>,
    requests: u64,
}

fn run_case(case: &Case) -> Outcome {
    let res = fresh_name("c20");
    isolation::load_rules_of_resource(&res, vec![Arc::new(isolation::Rule { resource: res.clone(), threshold: case.threshold, ..Default::default() })]).unwrap();
    if case.throttled {
        sentinel_core::flow::load_rules_of_resource(
            &res,
            vec![Arc::new(sentinel_core::flow::Rule {
                resource: res.clone(),
                threshold: 1000.0,
                control_strategy: sentinel_core::flow::ControlStrategy::Throttling,
                max_queueing_time_ms: 5_000,
                ..Default::default()
            })],
        )
        .unwrap();
    }
    let calls = Arc::new(AtomicUsize::new(0));
    let scripts = Arc::new(Mutex::new(VecDeque::new()));
    let inner = Inner { calls: calls.clone(), scripts: scripts.clone() };
    let mut svc: SentinelService<Inner, Req> = SentinelService::new(inner, if case.server { ServiceRole::Server } else { ServiceRole::Client }).with_extractor(extract);
    if case.with_fallback {
        svc = svc.with_fallback(fallback);
    }
    let waker = noop_waker();
    let mut cx = Context::from_waker(&waker);
    let mut out = Outcome { sig: None, violation: None, drop_observations: vec![], requests: 0 };
    let mut pending: Vec<Pending> = vec![];
    // ledger: admissions not yet released (inner future still pending)
    let mut in_flight: u32 = 0;
    let mut tag = 0u64;
    let (mut rejected, mut errs_released, mut oks_released, mut concurrent_max) = (0u32, 0u32, 0u32, 0usize);
    let conc = |res: &String| stat::get_resource_node(res).map(|n| n.current_concurrency()).unwrap_or(0);
    let mut finish = |p: Pending, r: Result<String, BoxError>, in_flight: &mut u32, out: &mut Outcome, errs: &mut u32, oks: &mut u32, rejected: &mut u32| {
        if p.admitted {
            *in_flight -= 1;
            match (&r, p.script) {
                (Ok(s), Script::ReadyOk | Script::PendingOk(_)) if *s == format!("resp-{}", p.tag) => *oks += 1,
                (Err(e), Script::ReadyErr | Script::PendingErr(_)) if e.to_string() == format!("inner-error-{}", p.tag) => *errs += 1,
                _ => out.violation = Some(("output/admitted-request-did-not-get-the-inner-result".into(), format!("request {}: inner script {:?}, middleware returned {:?}", p.tag, p.script, r.as_ref().map_err(|e| e.to_string())))),
            }
        } else {
            *rejected += 1;
            let ok = match &r {
                Ok(s) => case.with_fallback && *s == format!("fallback-{}", p.tag),
                Err(_) => !case.with_fallback,
            };
            if !ok {
                out.violation = Some(("output/rejected-request-wrong-output".into(), format!("request {} rejected by Sentinel (fallback configured: {}), middleware returned {:?}", p.tag, case.with_fallback, r.as_ref().map_err(|e| e.to_string()))));
            }
        }
    };
    'ops: for (i, op) in case.ops.iter().enumerate() {
        match op {
            Op::Call(script) => {
                tag += 1;
                out.requests += 1;
                let expect_admit = in_flight + 1 <= case.threshold;
                let calls_before = calls.load(Ordering::SeqCst);
                scripts.lock().unwrap().clear();
                scripts.lock().unwrap().push_back(*script);
                let fut = svc.call(Req { resource: res.clone(), tag });
                let called = calls.load(Ordering::SeqCst) - calls_before;
                if expect_admit && called != 1 {
                    out.violation = Some((
                        if called == 0 { "admission/request-that-fits-was-rejected".into() } else { "inner/called-more-than-once".into() },
                        format!("op#{i}: {in_flight} admissions outstanding, threshold {}: inner service called {called} times", case.threshold),
                    ));
                    break 'ops;
                }
                if !expect_admit && called != 0 {
                    out.violation = Some(("inner/called-for-rejected-request".into(), format!("op#{i}: {in_flight} outstanding, threshold {}: inner called {called} times", case.threshold)));
                    break 'ops;
                }
                if expect_admit {
                    in_flight += 1;
                }
                pending.push(Pending { fut, tag, admitted: expect_admit, script: *script });
                concurrent_max = concurrent_max.max(pending.iter().filter(|p| p.admitted).count());
            }
            Op::Poll(k) => {
                if pending.is_empty() {
                    continue;
                }
                let idx = *k % pending.len();
                match pending[idx].fut.as_mut().poll(&mut cx) {
                    Poll::Pending => {}
                    Poll::Ready(r) => {
                        let p = pending.remove(idx);
                        finish(p, r, &mut in_flight, &mut out, &mut errs_released, &mut oks_released, &mut rejected);
                        if out.violation.is_some() {
                            break 'ops;
                        }
                    }
                }
            }
            Op::Adv(ms) => {
                sentinel_core::utils::verif_clock::advance_ns(*ms as i64 * 1_000_000);
            }
            Op::Drop(k) => {
                if pending.is_empty() {
                    continue;
                }
                let idx = *k % pending.len();
                let p = pending.remove(idx);
                let before = conc(&res);
                let admitted = p.admitted;
                drop(p);
                let after = conc(&res);
                out.drop_observations.push(format!("dropped pending future (admitted={admitted}): in-flight {before} -> {after}"));
                // not asserted; the ledger follows what was observed so that later checks stay meaningful
                if admitted {
                    in_flight = in_flight.saturating_sub(before.saturating_sub(after));
                    if before == after {
                        // admission stays held: mirror it in the ledger by never releasing it
                    }
                }
            }
        }
        // the resource's in-flight count equals the outstanding admissions
        let c = conc(&res);
        let dropped_held: u32 = 0;
        if c != in_flight + dropped_held && out.drop_observations.is_empty() {
            out.violation = Some((
                format!("release/in-flight-{}", if c > in_flight { "not-released" } else { "released-too-early" }),
                format!("after op#{i} {op:?}: resource in-flight {c}, outstanding admitted requests {in_flight} (released so far: {oks_released} ok, {errs_released} error)"),
            ));
            break 'ops;
        }
    }
    // drain
    if out.violation.is_none() {
        let mut guard = 0;
        while !pending.is_empty() && guard < 100 {
            guard += 1;
            let idx = 0;
            if let Poll::Ready(r) = pending[idx].fut.as_mut().poll(&mut cx) {
                let p = pending.remove(idx);
                finish(p, r, &mut in_flight, &mut out, &mut errs_released, &mut oks_released, &mut rejected);
            }
        }
        let c = conc(&res);
        if out.violation.is_none() && out.drop_observations.is_empty() && c != 0 {
            out.violation = Some(("release/in-flight-not-released".into(), format!("all requests finished, resource in-flight is {c}")));
        }
    }
    isolation::clear_rules_of_resource(&res);
    sentinel_core::flow::clear_rules_of_resource(&res);
    if rejected > 0 && (errs_released > 0 || oks_released > 0) {
        out.sig = Some(format!(
            "T{}|fb{}|{}|rej{}|err{}|ok{}|conc{}|drop{}",
            case.threshold,
            case.with_fallback as u8,
            if case.server { "server" } else { "client" },
            (rejected > 0) as u8,
            (errs_released > 0) as u8,
            (oks_released > 0) as u8,
            concurrent_max.min(3),
            (!out.drop_observations.is_empty()) as u8
        ));
    }
    let _ = case.allow_drop;
    out
}

fn main() {
    let opts = Opts::parse();
    common::install_panic_capture();
    let mut rep = Report::new("C20", &opts);
    sentinel_core::utils::verif_clock::install(common::T0_MS as i64 * 1_000_000 + (opts.shard as i64) * 3_600_000_000_000_000);
    let mut rng = opts.rng();
    let n = if opts.thorough() { 300_000 } else { 30_000 };
    let mut drops: Vec<String> = vec![];
    for i in 0..n {
        if rep.over_budget() {
            break;
        }
        let case = gen_case(&mut rng, opts.thorough());
        match common::catch(|| run_case(&case)) {
            Ok(o) => {
                rep.count("requests", o.requests);
                rep.count("dropped_futures_observed", o.drop_observations.len() as u64);
                for d in o.drop_observations {
                    if drops.len() < 6 && !drops.contains(&d) {
                        drops.push(d);
                    }
                }
                rep.case(o.sig.clone(), || case.to_json());
                if let Some((s, d)) = o.violation {
                    rep.violation(&s, d, case.to_json());
                }
            }
            Err(p) => {
                rep.case(None, || Value::Null);
                rep.violation(&format!("panic/{}", common::panic_site(&p)), p, case.to_json());
            }
        }
        if i % 500 == 499 {
            stat::reset_resource_map();
        }
    }
    rep.extra.insert("dropped_future_observations".into(), json!(drops));
    rep.finish()
}
