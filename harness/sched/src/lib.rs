//! Controlled scheduling of the real sentinel-core (shuttle runtime switched in
//! through crate::vsync under --cfg sentinel_verif_sched).
//!
//! `explore` runs a scenario under random and PCT schedulers, counts executions
//! and distinct schedules (hash of the scheduling decisions) and turns shuttle's
//! verdicts (deadlock: every unfinished task blocked; panic inside a task) into
//! violations with the failing schedule as witness.

use shuttle::scheduler::{PctScheduler, RandomScheduler, Schedule, Scheduler, Task, TaskId};
use shuttle::{Config, FailurePersistence, MaxSteps, Runner};
use std::collections::HashSet;
use std::sync::atomic::{AtomicU64, Ordering};
use std::sync::{Arc, Mutex};

pub struct Stats {
    pub executions: AtomicU64,
    pub decisions: AtomicU64,
    pub distinct: Mutex<HashSet<u64>>,
}

struct Recording<S: Scheduler> {
    inner: S,
    hash: u64,
    len: u64,
    stats: Arc<Stats>,
}

impl<S: Scheduler> Recording<S> {
    fn flush(&mut self) {
        if self.len > 0 {
            self.stats.executions.fetch_add(1, Ordering::Relaxed);
            self.stats.decisions.fetch_add(self.len, Ordering::Relaxed);
            self.stats.distinct.lock().unwrap().insert(self.hash ^ self.len.wrapping_mul(0x9E37_79B9_7F4A_7C15));
        }
        self.hash = 0xcbf2_9ce4_8422_2325;
        self.len = 0;
    }
}

impl<S: Scheduler> Scheduler for Recording<S> {
    fn new_execution(&mut self) -> Option<Schedule> {
        self.flush();
        self.inner.new_execution()
    }
    fn next_task(&mut self, runnable: &[&Task], current: Option<TaskId>, is_yielding: bool) -> Option<TaskId> {
        let t = self.inner.next_task(runnable, current, is_yielding);
        if let Some(t) = t {
            let id: usize = t.into();
            self.hash = (self.hash ^ (id as u64 + 1)).wrapping_mul(0x1000_0000_01b3);
            self.len += 1;
        }
        t
    }
    fn next_u64(&mut self) -> u64 {
        self.inner.next_u64()
    }
}

impl<S: Scheduler> Drop for Recording<S> {
    fn drop(&mut self) {
        self.flush();
    }
}

#[derive(Debug, Clone)]
pub struct Failure {
    /// "deadlock" or "panic"
    pub kind: String,
    pub message: String,
    pub scheduler: String,
    pub seed: u64,
}

fn config() -> Config {
    let mut c = Config::new();
    c.failure_persistence = FailurePersistence::None;
    c.max_steps = MaxSteps::FailAfter(200_000);
    c.silence_warnings = true;
    c
}

/// Explore `scenario` under `budget` executions split over a random scheduler and
/// PCT schedulers of depth 1..=3 (each restarted with fresh seeds after a failure).
pub fn explore<F>(scenario: F, budget: usize, seed: u64, stats: &Arc<Stats>, max_failures: usize) -> Vec<Failure>
where
    F: Fn() + Send + Sync + Clone + 'static,
{
    let mut failures: Vec<Failure> = vec![];
    let plans: Vec<(&str, usize, usize)> = vec![("random", 0, budget / 2), ("pct", 1, budget / 6), ("pct", 2, budget / 6), ("pct", 3, budget / 6)];
    for (pi, (name, depth, n)) in plans.into_iter().enumerate() {
        let mut remaining = n.max(1);
        let mut round = 0u64;
        while remaining > 0 && failures.len() < max_failures {
            round += 1;
            let s = seed.wrapping_mul(1_000_003).wrapping_add(pi as u64 * 7919).wrapping_add(round * 104_729);
            let before = stats.executions.load(Ordering::Relaxed);
            let f = scenario.clone();
            let st = stats.clone();
            let label = if depth == 0 { name.to_string() } else { format!("{name}{depth}") };
            let chunk = remaining;
            let r = std::panic::catch_unwind(std::panic::AssertUnwindSafe(move || {
                if depth == 0 {
                    let sch = Recording { inner: RandomScheduler::new_from_seed(s, chunk), hash: 0xcbf2_9ce4_8422_2325, len: 0, stats: st };
                    Runner::new(sch, config()).run(move || f());
                } else {
                    let sch = Recording { inner: PctScheduler::new_from_seed(s, depth, chunk), hash: 0xcbf2_9ce4_8422_2325, len: 0, stats: st };
                    Runner::new(sch, config()).run(move || f());
                }
            }));
            let done = (stats.executions.load(Ordering::Relaxed) - before) as usize;
            match r {
                Ok(()) => break,
                Err(_) => {
                    let msg = common::take_last_panic().unwrap_or_else(|| "<panic>".into());
                    let kind = if msg.contains("deadlock!") { "deadlock" } else if msg.contains("max_steps") { "livelock" } else { "panic" };
                    failures.push(Failure { kind: kind.into(), message: msg, scheduler: label, seed: s });
                    remaining = remaining.saturating_sub(done.max(1));
                }
            }
        }
    }
    failures
}

/// virtual clock helpers (plain std atomics inside the hook: invisible to the scheduler)
pub fn set_ms(ms: u64) {
    sentinel_core::utils::verif_clock::install(ms as i64 * 1_000_000);
}
pub fn advance_ms(ms: u64) {
    sentinel_core::utils::verif_clock::advance_ns(ms as i64 * 1_000_000);
}

/// violations recorded by oracles inside an execution (harness state: std mutex,
/// never held across a scheduling point)
pub static FOUND: Mutex<Vec<(String, String)>> = Mutex::new(Vec::new());

pub fn found(sig: &str, detail: String) {
    let mut g = FOUND.lock().unwrap();
    if g.len() < 10_000 {
        g.push((sig.to_string(), detail));
    }
}

pub fn take_found() -> Vec<(String, String)> {
    std::mem::take(&mut *FOUND.lock().unwrap())
}

/// every scheduled scenario ends with this: rule managers emptied while the
/// execution is still alive (breakers must not be dropped by shuttle's teardown
/// of lazy statics, see DESIGN §4.1)
pub fn clear_everything() {
    sentinel_core::flow::clear_rules();
    sentinel_core::hotspot::clear_rules();
    sentinel_core::isolation::clear_rules();
    sentinel_core::system::clear_rules();
    sentinel_core::circuitbreaker::clear_rules();
    sentinel_core::circuitbreaker::clear_state_change_listeners();
}
