//! Controlled scheduling of the real sentinel-core (shuttle runtime switched in
//! through crate::vsync under --cfg sentinel_verif_sched).
//!
//! `explore` runs a scenario under random and PCT schedulers, counts executions
//! and distinct schedules (hash of the scheduling decisions) and turns shuttle's
//! verdicts (deadlock: every unfinished task blocked; panic inside a task) into
//! violations with the failing schedule as witness.

use shuttle::scheduler::{PctScheduler, RandomScheduler, Schedule, Scheduler, Task, TaskId};
use shuttle::{Config, FailurePersistence, MaxSteps, Runner};
use std::collections::HashSet;
use std::sync::atomic::{AtomicU64, Ordering};
use std::sync::{Arc, Mutex};

pub struct Stats {
    pub executions: AtomicU64,
    pub decisions: AtomicU64,
    pub distinct: Mutex<HashSet<u64>>,
}

struct Recording<S: Scheduler> {
    inner: S,
    hash: u64,
    len: u64,
    stats: Arc<Stats>,
}

impl<S: Scheduler> Recording<S> {
    fn flush(&mut self) {
        if self.len > 0 {
            self.stats.executions.fetch_add(1, Ordering::Relaxed);
            self.stats.decisions.fetch_add(self.len, Ordering::Relaxed);
            self.stats.distinct.lock().unwrap().insert(self.hash ^ self.len.wrapping_mul(0x9E37_79B9_7F4A_7C15));
        }
        self.hash = 0xcbf2_9ce4_8422_2325;
        self.len = 0;
    }
}

impl<S: Scheduler> Scheduler for Recording<S> {
    fn new_execution(&mut self) -> Option<Schedule> {
        self.flush();
        self.inner.new_execution()
    }
    fn next_task(&mut self, runnable: &[&Task], current: Option<TaskId>, is_yielding: bool) -> Option<TaskId> {
        let t = self.inner.next_task(runnable, current, is_yielding);
        if let Some(t) = t {
            let id: usize = t.into();
            self.hash = (self.hash ^ (id as u64 + 1)).wrapping_mul(0x1000_0000_01b3);
            self.len += 1;
        }
        t
    }
    fn next_u64(&mut self) -> u64 {
        self.inner.next_u64()
    }
}

impl<S: Scheduler> Drop for Recording<S> {
    fn drop(&mut self) {
        self.flush();
    }
}

#[derive(Debug, Clone)]
pub struct Failure {
    /// "deadlock" or "panic"
    pub kind: String,
    pub message: String,
    pub scheduler: String,
    pub seed: u64,
}

fn config() -> Config {
    let mut c = Config::new();
    c.failure_persistence = FailurePersistence::None;
    c.max_steps = MaxSteps::FailAfter(200_000);
    c.silence_warnings = true;
    c
}

/// Explore `scenario` under `budget` executions split over a random scheduler and
/// PCT schedulers of depth 1..=3 (each restarted with fresh seeds after a failure).
pub fn explore<F>(scenario: F, budget: usize, seed: u64, stats: &Arc<Stats>, max_failures: usize) -> Vec<Failure>
where
    F: Fn() + Send + Sync + Clone + 'static,
{
    let mut failures: Vec<Failure> = vec![];
    let plans: Vec<(&str, usize, usize)> = vec![("random", 0, budget / 2), ("pct", 1, budget / 6), ("pct", 2, budget / 6), ("pct", 3, budget / 6)];
    for (pi, (name, depth, n)) in plans.into_iter().enumerate() {
        let mut remaining = n.max(1);
        let mut round = 0u64;
        while remaining > 0 && failures.len() < max_failures {
            round += 1;
            let s = seed.wrapping_mul(1_000_003).wrapping_add(pi as u64 * 7919).wrapping_add(round * 104_729);
            let before = stats.executions.load(Ordering::Relaxed);
            let f = scenario.clone();
            let st = stats.clone();
            let label = if depth == 0 { name.to_string() } else { format!("{name}{depth}") };
            let chunk = remaining;
            let r = std::panic::catch_unwind(std::panic::AssertUnwindSafe(move || {
                if depth == 0 {
                    let sch = Recording { inner: RandomScheduler::new_from_seed(s, chunk), hash: 0xcbf2_9ce4_8422_2325, len: 0, stats: st };
                    Runner::new(sch, config()).run(move || f());
                } else {
                    let sch = Recording { inner: PctScheduler::new_from_seed(s, depth, chunk), hash: 0xcbf2_9ce4_8422_2325, len: 0, stats: st };
                    Runner::new(sch, config()).run(move || f());
                }
            }));
            let done = (stats.executions.load(Ordering::Relaxed) - before) as usize;
            match r {
                Ok(()) => break,
                Err(_) => {
                    let msg = common::take_first_panic().unwrap_or_else(|| "<panic>".into());
                    let kind = if msg.contains("deadlock!") { "deadlock" } else if msg.contains("max_steps") { "livelock" } else { "panic" };
                    failures.push(Failure { kind: kind.into(), message: msg, scheduler: label, seed: s });
                    remaining = remaining.saturating_sub(done.max(1));
                }
            }
        }
    }
    failures
}

/// virtual clock helpers (plain std atomics inside the hook: invisible to the scheduler)
pub fn set_ms(ms: u64) {
    sentinel_core::utils::verif_clock::install(ms as i64 * 1_000_000);
}
pub fn advance_ms(ms: u64) {
    sentinel_core::utils::verif_clock::advance_ns(ms as i64 * 1_000_000);
}

/// violations recorded by oracles inside an execution (harness state: std mutex,
/// never held across a scheduling point)
pub static FOUND: Mutex<Vec<(String, String)>> = Mutex::new(Vec::new());

pub fn found(sig: &str, detail: String) {
    let mut g = FOUND.lock().unwrap();
    if g.len() < 10_000 {
        let sch = CURRENT_SCHEDULE.lock().unwrap().clone();
        g.push((sig.to_string(), if sch.is_empty() { detail } else { format!("{detail} [schedule: default non-preemptive + deviations(step:task) {sch}]") }));
    }
}

pub fn take_found() -> Vec<(String, String)> {
    std::mem::take(&mut *FOUND.lock().unwrap())
}

/// every scheduled scenario ends with this: rule managers emptied while the
/// execution is still alive (breakers must not be dropped by shuttle's teardown
/// of lazy statics, see DESIGN §4.1)
pub fn clear_everything() {
    sentinel_core::flow::clear_rules();
    sentinel_core::hotspot::clear_rules();
    sentinel_core::isolation::clear_rules();
    sentinel_core::system::clear_rules();
    sentinel_core::circuitbreaker::clear_rules();
    sentinel_core::circuitbreaker::clear_state_change_listeners();
}

// ---------------------------------------------------------------- preemption-bounded enumeration
//
// Systematic exploration in the style of CHESS: the default policy never preempts (the running
// task continues while it is runnable; when it blocks, finishes or yields, the lowest-numbered
// other runnable task continues). A schedule is that default plus a list of *deviations*
// (step, task). A deviation at a step where the running task could have continued and did not
// ask to yield is a preemption and costs 1; deviations at blocking / finishing / yielding points
// are free (but capped, since a spin loop offers one at every iteration). Every schedule with at
// most `bound` preemptions is run exactly once: after an execution, every step after its last
// deviation spawns one child per alternative runnable task. The real code is re-executed from
// the start for every schedule (stateless search).

#[derive(Clone, Debug)]
struct Dev {
    step: u32,
    task: u32,
}

#[derive(Default)]
struct PbCore {
    bound: usize,
    free_cap: usize,
    max_runs: u64,
    shard: u64,
    nshards: u64,
    /// pending schedules by number of preemptions: (deviations, preemptions used, free deviations used);
    /// the lowest non-empty level is served first, so a capped run has still completed the lower bounds
    levels: Vec<Vec<(Vec<Dev>, u8, u8)>>,
    cur: Vec<Dev>,
    cur_cost: u8,
    cur_free: u8,
    /// (step, alternatives, cost) for steps after the last deviation of `cur`
    trace: Vec<(u32, Vec<u32>, u8)>,
    step: u32,
    next_dev: usize,
    started: bool,
    running: bool,
    pub runs: u64,
    pub diverged: u64,
    pub max_steps: u32,
    pub exhausted: bool,
    pub root_children: u64,
    /// number of executions after which all schedules with <= i preemptions had been run
    pub level_done_at: Vec<u64>,
    /// lowest level from which pending schedules were dropped because they could not be run within the cap
    truncated_level: Option<usize>,
}

impl PbCore {
    /// all schedules with at most this many preemptions have been executed (-1: not even the free ones)
    fn complete_bound(&self) -> i64 {
        let by_queue = match self.levels.iter().position(|l| !l.is_empty()) {
            Some(l) => l as i64 - 1,
            None => self.bound as i64,
        };
        match self.truncated_level {
            Some(t) => by_queue.min(t as i64 - 1),
            None => by_queue,
        }
    }
}

pub struct PbScheduler {
    core: Arc<Mutex<PbCore>>,
}

impl PbCore {
    fn expand(&mut self) {
        // children of the execution that has just finished
        let is_root = self.cur.is_empty();
        let trace = std::mem::take(&mut self.trace);
        let mut kids = vec![];
        let mut idx = 0u64;
        for (step, alts, cost) in trace.iter() {
            for a in alts {
                let c = self.cur_cost + cost;
                let f = self.cur_free + if *cost == 0 { 1 } else { 0 };
                if c as usize > self.bound || f as usize > self.free_cap {
                    continue;
                }
                idx += 1;
                if is_root {
                    self.root_children += 1;
                    if (idx - 1) % self.nshards != self.shard {
                        continue;
                    }
                }
                let mut d = self.cur.clone();
                d.push(Dev { step: *step, task: *a });
                kids.push((d, c, f));
            }
        }
        kids.reverse();
        for k in kids {
            let lvl = k.1 as usize;
            while self.levels.len() <= lvl {
                self.levels.push(vec![]);
            }
            // never keep more pending schedules than the execution cap could still run (memory bound);
            // a level that lost schedules this way is not reported as complete
            let pending: u64 = self.levels.iter().map(|l| l.len() as u64).sum();
            if self.runs + pending >= self.max_runs + 64 {
                // drop from the highest level first: the lower bounds are the ones worth completing
                let highest = self.levels.iter().rposition(|l| !l.is_empty()).unwrap_or(lvl);
                if lvl < highest {
                    self.levels[highest].pop();
                    self.truncated_level = Some(self.truncated_level.map_or(highest, |t| t.min(highest)));
                } else {
                    self.truncated_level = Some(self.truncated_level.map_or(lvl, |t| t.min(lvl)));
                    continue;
                }
            }
            self.levels[lvl].push(k);
        }
    }
}

impl Scheduler for PbScheduler {
    fn new_execution(&mut self) -> Option<Schedule> {
        let mut c = self.core.lock().unwrap();
        if c.running {
            // the previous execution ended normally
            c.running = false;
            c.max_steps = c.max_steps.max(c.step);
            c.expand();
        }
        if !c.started {
            c.started = true;
            c.cur = vec![];
            c.cur_cost = 0;
            c.cur_free = 0;
        } else {
            if c.runs >= c.max_runs {
                return None;
            }
            let first = c.levels.iter().position(|l| !l.is_empty()).unwrap_or(c.bound + 1);
            let first = first.min(c.truncated_level.unwrap_or(usize::MAX));
            while c.level_done_at.len() < first.min(c.bound + 1) {
                let r = c.runs;
                c.level_done_at.push(r);
            }
            let next = c.levels.iter_mut().find(|l| !l.is_empty()).and_then(|l| l.pop());
            match next {
                None => {
                    c.exhausted = c.truncated_level.is_none();
                    return None;
                }
                Some((d, cost, free)) => {
                    c.cur = d;
                    c.cur_cost = cost;
                    c.cur_free = free;
                }
            }
        }
        *CURRENT_SCHEDULE.lock().unwrap() = format!("[{}]", c.cur.iter().map(|d| format!("{}:{}", d.step, d.task)).collect::<Vec<_>>().join(","));
        c.runs += 1;
        c.step = 0;
        c.next_dev = 0;
        c.trace.clear();
        c.running = true;
        Some(Schedule::new(0x5eed))
    }

    fn next_task(&mut self, runnable: &[&Task], current: Option<TaskId>, is_yielding: bool) -> Option<TaskId> {
        let mut c = self.core.lock().unwrap();
        let mut ids: Vec<u32> = runnable.iter().map(|t| usize::from(t.id()) as u32).collect();
        ids.sort_unstable();
        let cur: Option<u32> = current.map(|t| usize::from(t) as u32);
        let cur_runnable = cur.map(|x| ids.contains(&x)).unwrap_or(false);
        let default = if cur_runnable && !is_yielding {
            cur.unwrap()
        } else if cur_runnable {
            // yielding: the next other runnable task in cyclic order, if there is one
            let me = cur.unwrap();
            *ids.iter().find(|x| **x > me).or_else(|| ids.iter().find(|x| **x != me)).unwrap_or(&me)
        } else {
            ids[0]
        };
        let step = c.step;
        let mut choice = default;
        let mut deviated_here = false;
        if c.next_dev < c.cur.len() && c.cur[c.next_dev].step == step {
            let want = c.cur[c.next_dev].task;
            c.next_dev += 1;
            deviated_here = true;
            if ids.contains(&want) {
                choice = want;
            } else {
                c.diverged += 1;
            }
        }
        if c.next_dev >= c.cur.len() && !deviated_here && ids.len() > 1 {
            let cost = if cur_runnable && !is_yielding { 1 } else { 0 };
            let alts: Vec<u32> = ids.iter().cloned().filter(|x| *x != choice).collect();
            c.trace.push((step, alts, cost));
        }
        c.step += 1;
        let pos = runnable.iter().position(|t| usize::from(t.id()) as u32 == choice).unwrap();
        Some(runnable[pos].id())
    }

    fn next_u64(&mut self) -> u64 {
        0x9E37_79B9_7F4A_7C15
    }
}

#[derive(Debug, Clone, Default)]
pub struct PbOutcome {
    pub runs: u64,
    /// every schedule with at most `bound` preemptions (of this shard's part) was executed
    pub exhausted: bool,
    /// every schedule with at most this many preemptions was executed, even if the run was capped (-1: none)
    pub complete_bound: i64,
    pub bound: usize,
    pub free_cap: usize,
    pub max_steps: u32,
    pub diverged: u64,
    pub root_children: u64,
    pub level_done_at: Vec<u64>,
    pub failures: Vec<Failure>,
}

/// Run every schedule of `scenario` with at most `bound` preemptions (sharded over the first
/// deviation), up to `max_runs` executions. A failing schedule (deadlock / panic) is recorded
/// with its deviation list as witness; its children are not expanded.
pub fn enumerate_pb<F>(scenario: F, bound: usize, max_runs: u64, shard: u64, nshards: u64, stats: &Arc<Stats>, max_failures: usize) -> PbOutcome
where
    F: Fn() + Send + Sync + Clone + 'static,
{
    enumerate_pb_free(scenario, bound, 3, max_runs, shard, nshards, stats, max_failures)
}

/// as `enumerate_pb`, with the cap on free (non-preempting) deviations per schedule given explicitly
#[allow(clippy::too_many_arguments)]
pub fn enumerate_pb_free<F>(scenario: F, bound: usize, free_cap: usize, max_runs: u64, shard: u64, nshards: u64, stats: &Arc<Stats>, max_failures: usize) -> PbOutcome
where
    F: Fn() + Send + Sync + Clone + 'static,
{
    let core = Arc::new(Mutex::new(PbCore { bound, free_cap, max_runs, shard, nshards: nshards.max(1), ..Default::default() }));
    let mut failures = vec![];
    loop {
        let f = scenario.clone();
        let st = stats.clone();
        let c2 = core.clone();
        let r = std::panic::catch_unwind(std::panic::AssertUnwindSafe(move || {
            let sch = Recording { inner: PbScheduler { core: c2 }, hash: 0xcbf2_9ce4_8422_2325, len: 0, stats: st };
            Runner::new(sch, config()).run(move || f());
        }));
        match r {
            Ok(()) => break,
            Err(_) => {
                let msg = common::take_first_panic().unwrap_or_else(|| "<panic>".into());
                let kind = if msg.contains("deadlock!") { "deadlock" } else if msg.contains("max_steps") { "livelock" } else { "panic" };
                let mut c = match core.lock() {
                    Ok(g) => g,
                    Err(p) => p.into_inner(),
                };
                let devs: Vec<String> = c.cur.iter().map(|d| format!("{}:{}", d.step, d.task)).collect();
                c.running = false; // do not expand the failing schedule
                c.trace.clear();
                failures.push(Failure { kind: kind.into(), message: msg, scheduler: format!("pb{} deviations=[{}]", bound, devs.join(",")), seed: 0 });
                if failures.len() >= max_failures {
                    break;
                }
            }
        }
    }
    let c = match core.lock() {
        Ok(g) => g,
        Err(p) => p.into_inner(),
    };
    CURRENT_SCHEDULE.lock().unwrap().clear();
    PbOutcome { runs: c.runs, exhausted: c.exhausted && failures.is_empty(), complete_bound: if failures.is_empty() { c.complete_bound() } else { -1 }, bound, free_cap, max_steps: c.max_steps, diverged: c.diverged, root_children: c.root_children, level_done_at: c.level_done_at.clone(), failures }
}

/// accumulated over the scenarios of one monitor run, written into the report's `extra`
#[derive(Default)]
pub struct PbTotals {
    pub runs: u64,
    pub diverged: u64,
    pub exhausted: Vec<String>,
    pub capped: Vec<String>,
    pub complete_hist: std::collections::BTreeMap<String, u64>,
}

impl PbTotals {
    pub fn add(&mut self, name: &str, o: &PbOutcome) {
        self.runs += o.runs;
        self.diverged += o.diverged;
        if o.exhausted {
            if self.exhausted.len() < 400 {
                self.exhausted.push(format!("{}:bound{}(free<={}):{}:levels-done-at{:?}", name, o.bound, o.free_cap, o.runs, o.level_done_at));
            }
        } else if self.capped.len() < 400 {
            self.capped.push(format!("{}:bound{}(free<={})-capped-after-{}-runs:complete-through-bound{}:levels-done-at{:?}", name, o.bound, o.free_cap, o.runs, o.complete_bound, o.level_done_at));
        }
        *self.complete_hist.entry(format!("scenarios_complete_through_bound_{}", o.complete_bound)).or_insert(0) += 1;
    }
    pub fn into_extra(self, extra: &mut serde_json::Map<String, serde_json::Value>) {
        extra.insert("preemption_bounded_runs".into(), serde_json::json!(self.runs));
        extra.insert("preemption_bounded_replay_divergences".into(), serde_json::json!(self.diverged));
        extra.insert("preemption_bounded_exhausted".into(), serde_json::json!(self.exhausted));
        extra.insert("preemption_bounded_capped".into(), serde_json::json!(self.capped));
        for (k, v) in self.complete_hist {
            extra.insert(k, serde_json::json!(v));
        }
    }
}

/// the schedule being executed (set by the enumerating scheduler; empty under the sampling ones),
/// appended to oracle findings as witness
pub static CURRENT_SCHEDULE: Mutex<String> = Mutex::new(String::new());
