//! C15 — concurrent rule updates and entries never deadlock, panic or poison a manager.
//!
//! Monitor: pairs (and selected triples) of rule-management calls of one family,
//! or of two families, run on scheduled threads next to a thread that builds and
//! exits entries on an affected resource; variants register a state-change
//! listener / a custom generator that calls read-only manager functions. Verdict
//! sources: shuttle's deadlock detection (every unfinished task blocked), a panic
//! in any task, and a sequential health probe of all managers after join.

use common::{Opts, Report, T0_MS};
use sched::*;
use sentinel_core::{circuitbreaker as cb, flow, hotspot, isolation, system, EntryBuilder};
use serde_json::json;
use shuttle::thread;
use std::sync::atomic::Ordering;
use std::sync::Arc;

#[derive(Clone, Copy, Debug, PartialEq)]
enum Fam {
    Flow,
    Hot,
    Cb,
    Iso,
    Sys,
}

#[derive(Clone, Copy, Debug, PartialEq)]
enum Op {
    LoadA,
    LoadB,
    LoadRes,
    Append,
    Clear,
    ClearRes,
    Get,
    /// append a valid rule whose controller / breaker cannot be built (custom strategy without a generator)
    AppendUnbuildable,
}

const OPS: [Op; 7] = [Op::LoadA, Op::LoadB, Op::LoadRes, Op::Append, Op::Clear, Op::ClearRes, Op::Get];

const R1: &str = "c15-r1";
const R2: &str = "c15-r2";

fn flow_rule(res: &str, th: f64) -> Arc<flow::Rule> {
    Arc::new(flow::Rule { resource: res.into(), threshold: th, ..Default::default() })
}
fn hot_rule(res: &str, th: u64) -> Arc<hotspot::Rule> {
    Arc::new(hotspot::Rule { resource: res.into(), metric_type: hotspot::MetricType::Concurrency, threshold: th, params_max_capacity: 4, ..Default::default() })
}
fn cb_rule(res: &str, th: f64) -> Arc<cb::Rule> {
    Arc::new(cb::Rule { resource: res.into(), strategy: cb::BreakerStrategy::ErrorCount, threshold: th, stat_interval_ms: 1000, retry_timeout_ms: 100, min_request_amount: 1, ..Default::default() })
}
fn iso_rule(res: &str, th: u32) -> Arc<isolation::Rule> {
    Arc::new(isolation::Rule { resource: res.into(), threshold: th, ..Default::default() })
}
fn sys_rule(th: f64) -> Arc<system::Rule> {
    Arc::new(system::Rule { metric_type: system::MetricType::Concurrency, threshold: th, ..Default::default() })
}

fn apply(f: Fam, op: Op) {
    let r1 = R1.to_string();
    match (f, op) {
        (Fam::Flow, Op::AppendUnbuildable) => {
            flow::append_rule(Arc::new(flow::Rule { resource: R1.into(), threshold: 9.0, control_strategy: flow::ControlStrategy::Custom(200), ..Default::default() }));
        }
        (Fam::Hot, Op::AppendUnbuildable) => {
            hotspot::append_rule(Arc::new(hotspot::Rule { resource: R1.into(), metric_type: hotspot::MetricType::QPS, control_strategy: hotspot::ControlStrategy::Custom(200), threshold: 9, duration_in_sec: 1, params_max_capacity: 4, ..Default::default() }));
        }
        (Fam::Cb, Op::AppendUnbuildable) => {
            cb::append_rule(Arc::new(cb::Rule { resource: R1.into(), strategy: cb::BreakerStrategy::Custom(200), threshold: 0.5, stat_interval_ms: 1000, retry_timeout_ms: 100, min_request_amount: 1, ..Default::default() }));
        }
        (_, Op::AppendUnbuildable) => {}
        (Fam::Flow, Op::LoadA) => {
            flow::load_rules(vec![flow_rule(R1, 100.0), flow_rule(R2, 100.0)]);
        }
        (Fam::Flow, Op::LoadB) => {
            flow::load_rules(vec![flow_rule(R1, 200.0)]);
        }
        (Fam::Flow, Op::LoadRes) => {
            let _ = flow::load_rules_of_resource(&r1, vec![flow_rule(R1, 300.0), flow_rule(R1, 301.0)]);
        }
        (Fam::Flow, Op::Append) => {
            flow::append_rule(flow_rule(R1, 400.0));
        }
        (Fam::Flow, Op::Clear) => flow::clear_rules(),
        (Fam::Flow, Op::ClearRes) => flow::clear_rules_of_resource(&r1),
        (Fam::Flow, Op::Get) => {
            let _ = flow::get_rules();
            let _ = flow::get_rules_of_resource(&r1);
        }
        (Fam::Hot, Op::LoadA) => {
            hotspot::load_rules(vec![hot_rule(R1, 100), hot_rule(R2, 100)]);
        }
        (Fam::Hot, Op::LoadB) => {
            hotspot::load_rules(vec![hot_rule(R1, 200)]);
        }
        (Fam::Hot, Op::LoadRes) => {
            let _ = hotspot::load_rules_of_resource(&r1, vec![hot_rule(R1, 300), hot_rule(R1, 301)]);
        }
        (Fam::Hot, Op::Append) => {
            hotspot::append_rule(hot_rule(R1, 400));
        }
        (Fam::Hot, Op::Clear) => hotspot::clear_rules(),
        (Fam::Hot, Op::ClearRes) => hotspot::clear_rules_of_resource(&r1),
        (Fam::Hot, Op::Get) => {
            let _ = hotspot::get_rules();
            let _ = hotspot::get_rules_of_resource(&r1);
        }
        (Fam::Cb, Op::LoadA) => {
            cb::load_rules(vec![cb_rule(R1, 100.0), cb_rule(R2, 100.0)]);
        }
        (Fam::Cb, Op::LoadB) => {
            cb::load_rules(vec![cb_rule(R1, 200.0)]);
        }
        (Fam::Cb, Op::LoadRes) => {
            let _ = cb::load_rules_of_resource(&r1, vec![cb_rule(R1, 300.0), cb_rule(R1, 301.0)]);
        }
        (Fam::Cb, Op::Append) => {
            cb::append_rule(cb_rule(R1, 400.0));
        }
        (Fam::Cb, Op::Clear) => cb::clear_rules(),
        (Fam::Cb, Op::ClearRes) => cb::clear_rules_of_resource(&r1),
        (Fam::Cb, Op::Get) => {
            let _ = cb::get_rules();
            let _ = cb::get_rules_of_resource(&r1);
            let _ = cb::get_breakers_of_resource(&r1);
        }
        (Fam::Iso, Op::LoadA) => isolation::load_rules(vec![iso_rule(R1, 100), iso_rule(R2, 100)]),
        (Fam::Iso, Op::LoadB) => isolation::load_rules(vec![iso_rule(R1, 200)]),
        (Fam::Iso, Op::LoadRes) => {
            let _ = isolation::load_rules_of_resource(&r1, vec![iso_rule(R1, 300), iso_rule(R1, 301)]);
        }
        (Fam::Iso, Op::Append) => {
            isolation::append_rule(iso_rule(R1, 400));
        }
        (Fam::Iso, Op::Clear) => isolation::clear_rules(),
        (Fam::Iso, Op::ClearRes) => isolation::clear_rules_of_resource(&r1),
        (Fam::Iso, Op::Get) => {
            let _ = isolation::get_rules();
            let _ = isolation::get_rules_of_resource(&r1);
        }
        (Fam::Sys, Op::LoadA) => system::load_rules(vec![sys_rule(1000.0)]),
        (Fam::Sys, Op::LoadB) | (Fam::Sys, Op::LoadRes) => system::load_rules(vec![sys_rule(2000.0), sys_rule(3000.0)]),
        (Fam::Sys, Op::Append) => {
            system::append_rule(sys_rule(4000.0));
        }
        (Fam::Sys, Op::Clear) | (Fam::Sys, Op::ClearRes) => system::clear_rules(),
        (Fam::Sys, Op::Get) => {
            let _ = system::get_rules();
        }
    }
}

#[derive(Clone, Copy, Debug, PartialEq)]
enum Listener {
    None,
    Plain,
    /// every callback queries read-only manager functions
    Querying,
}

struct L(bool);
impl L {
    fn q(&self) {
        if self.0 {
            let _ = cb::get_rules();
            let _ = cb::get_rules_of_resource(&R1.to_string());
            let _ = cb::get_breakers_of_resource(&R1.to_string());
            let _ = flow::get_rules();
        }
    }
}
impl cb::StateChangeListener for L {
    fn on_transform_to_closed(&self, _p: cb::State, _r: Arc<cb::Rule>) {
        self.q()
    }
    fn on_transform_to_open(&self, _p: cb::State, _r: Arc<cb::Rule>, _s: Option<Arc<sentinel_core::base::Snapshot>>) {
        self.q()
    }
    fn on_transform_to_half_open(&self, _p: cb::State, _r: Arc<cb::Rule>) {
        self.q()
    }
    fn on_circuit_breaker_drop(&self, _p: cb::State, _r: Arc<cb::Rule>) {
        self.q()
    }
}

/// custom generators (circuit-breaker strategy Custom(7), flow control strategy Custom(7)) that call
/// read-only manager functions while they build the breaker / controller
#[derive(Clone, Copy, Debug, PartialEq)]
enum Gen {
    None,
    /// the breaker generator queries the OTHER families' managers
    CbQueriesOthers,
    /// the breaker generator queries the circuit-breaker manager itself
    CbQueriesOwn,
    /// the flow generator queries the flow manager itself
    FlowQueriesOwn,
    /// the breaker generator queries the flow manager and the flow generator the breaker manager
    CrossQuerying,
}

const CUSTOM: u8 = 7;

fn custom_cb_rule(res: &str, th: f64) -> Arc<cb::Rule> {
    Arc::new(cb::Rule { resource: res.into(), strategy: cb::BreakerStrategy::Custom(CUSTOM), threshold: th, stat_interval_ms: 1000, retry_timeout_ms: 100, min_request_amount: 1, ..Default::default() })
}
fn custom_flow_rule(res: &str, th: f64) -> Arc<flow::Rule> {
    Arc::new(flow::Rule { resource: res.into(), threshold: th, control_strategy: flow::ControlStrategy::Custom(CUSTOM), ..Default::default() })
}

fn register_generators(g: Gen) {
    let cb_queries: fn() = match g {
        Gen::CbQueriesOthers => || {
            let _ = (flow::get_rules(), isolation::get_rules(), system::get_rules(), hotspot::get_rules_of_resource(&R1.to_string()));
        },
        Gen::CbQueriesOwn => || {
            let _ = (cb::get_rules(), cb::get_rules_of_resource(&R2.to_string()), cb::get_breakers_of_resource(&R2.to_string()));
        },
        Gen::CrossQuerying => || {
            let _ = flow::get_rules();
        },
        _ => || {},
    };
    cb::set_circuit_breaker_generator(
        cb::BreakerStrategy::Custom(CUSTOM),
        Box::new(move |rule: Arc<cb::Rule>, _| -> Arc<dyn cb::CircuitBreakerTrait> {
            cb_queries();
            Arc::new(cb::ErrorCountBreaker::new(rule))
        }),
    )
    .expect("custom breaker generator");
    let flow_queries: fn() = match g {
        Gen::FlowQueriesOwn => || {
            let _ = flow::get_rules();
        },
        Gen::CrossQuerying => || {
            let _ = (cb::get_rules(), cb::get_breakers_of_resource(&R2.to_string()));
        },
        _ => || {},
    };
    use flow::{Calculator, Checker};
    use shuttle::sync::Mutex;
    flow::set_traffic_shaping_generator(
        flow::CalculateStrategy::Direct,
        flow::ControlStrategy::Custom(CUSTOM),
        Box::new(move |rule: Arc<flow::Rule>, _stat: Option<Arc<flow::StandaloneStat>>| -> sentinel_core::Result<Arc<flow::Controller>> {
            flow_queries();
            let stat = Arc::new(flow::StandaloneStat::new(false, sentinel_core::base::nop_read_stat(), Some(sentinel_core::base::nop_write_stat())));
            let calculator: Arc<Mutex<dyn Calculator>> = Arc::new(Mutex::new(flow::DirectCalculator::new(std::sync::Weak::new(), rule.clone())));
            let checker: Arc<Mutex<dyn Checker>> = Arc::new(Mutex::new(flow::RejectChecker::new(std::sync::Weak::new(), rule.clone())));
            let mut tsc = flow::Controller::new(rule, stat);
            tsc.set_calculator(calculator.clone());
            tsc.set_checker(checker.clone());
            let tsc = Arc::new(tsc);
            calculator.lock().unwrap().set_owner(Arc::downgrade(&tsc));
            checker.lock().unwrap().set_owner(Arc::downgrade(&tsc));
            Ok(tsc)
        }),
    )
    .expect("custom flow generator");
}

/// two threads load / append rules with the custom strategies while a third one builds and exits entries
fn scenario_gen(g: Gen) {
    set_ms(T0_MS + 250);
    register_generators(g);
    let mut hs = vec![];
    match g {
        Gen::FlowQueriesOwn => {
            hs.push(thread::spawn(|| {
                flow::load_rules(vec![custom_flow_rule(R1, 100.0), flow_rule(R2, 100.0)]);
            }));
            hs.push(thread::spawn(|| {
                flow::append_rule(custom_flow_rule(R2, 50.0));
            }));
        }
        Gen::CrossQuerying => {
            hs.push(thread::spawn(|| {
                cb::load_rules(vec![custom_cb_rule(R1, 0.5)]);
            }));
            hs.push(thread::spawn(|| {
                flow::load_rules(vec![custom_flow_rule(R1, 100.0)]);
            }));
        }
        _ => {
            hs.push(thread::spawn(|| {
                cb::load_rules(vec![custom_cb_rule(R1, 0.5), cb_rule(R2, 100.0)]);
            }));
            hs.push(thread::spawn(|| {
                cb::append_rule(custom_cb_rule(R2, 0.25));
                let _ = cb::load_rules_of_resource(&R1.to_string(), vec![custom_cb_rule(R1, 0.75)]);
            }));
            hs.push(thread::spawn(|| {
                flow::load_rules(vec![flow_rule(R1, 100.0)]);
                isolation::load_rules(vec![iso_rule(R1, 100)]);
            }));
        }
    }
    hs.push(thread::spawn(|| {
        for _ in 0..2 {
            if let Ok(e) = EntryBuilder::new(R1.to_string()).build() {
                e.exit();
            }
        }
    }));
    for h in hs {
        h.join().expect("a scenario thread panicked");
    }
    health_probe();
    clear_everything();
}

#[derive(Clone, Debug)]
struct Scn {
    gen: Gen,
    a: (Fam, Vec<Op>),
    b: (Fam, Vec<Op>),
    c: Option<(Fam, Vec<Op>)>,
    preload: bool,
    entries: bool,
    /// the entry thread completes its entries with an error (drives breaker transitions)
    erroring: bool,
    /// a flow rule rejects every entry on R1, so a breaker probe is rolled back by its exit hook
    reject_probe: bool,
    listener: Listener,
}

impl Scn {
    fn name(&self) -> String {
        if self.gen != Gen::None {
            return format!("generator-callbacks|{:?}", self.gen);
        }
        format!(
            "{:?}{:?}|{:?}{:?}{}|pre{}|ent{}{}{}|{:?}",
            self.a.0,
            self.a.1,
            self.b.0,
            self.b.1,
            self.c.as_ref().map(|c| format!("|{:?}{:?}", c.0, c.1)).unwrap_or_default(),
            self.preload as u8,
            self.entries as u8,
            if self.erroring { "err" } else { "" },
            if self.reject_probe { "rej" } else { "" },
            self.listener
        )
    }
}

fn health_probe() {
    let res = "c15-health".to_string();
    let _ = (flow::get_rules(), hotspot::get_rules(), cb::get_rules(), isolation::get_rules(), system::get_rules());
    flow::load_rules_of_resource(&res, vec![flow_rule(&res, 1.0)]).expect("flow manager accepts updates");
    hotspot::load_rules_of_resource(&res, vec![hot_rule(&res, 1)]).expect("hotspot manager accepts updates");
    cb::load_rules_of_resource(&res, vec![cb_rule(&res, 5.0)]).expect("breaker manager accepts updates");
    isolation::load_rules_of_resource(&res, vec![iso_rule(&res, 1)]).expect("isolation manager accepts updates");
    system::load_rules(vec![sys_rule(1e9)]);
    if (flow::get_rules_of_resource(&res).len(), hotspot::get_rules_of_resource(&res).len(), cb::get_rules_of_resource(&res).len(), isolation::get_rules_of_resource(&res).len(), system::get_rules().len()) != (1, 1, 1, 1, 1) {
        found("health/manager-does-not-hold-what-was-loaded", "after the concurrent phase a manager did not report the rule just loaded".into());
    }
    let e = EntryBuilder::new(res.clone()).build().expect("entry on an unrelated resource");
    e.exit();
}

fn scenario(s: &Scn) {
    if s.gen != Gen::None {
        return scenario_gen(s.gen);
    }
    set_ms(T0_MS + 250);
    match s.listener {
        Listener::None => {}
        Listener::Plain => cb::register_state_change_listeners(vec![Arc::new(L(false))]),
        Listener::Querying => cb::register_state_change_listeners(vec![Arc::new(L(true))]),
    }
    if s.preload {
        for f in [s.a.0, s.b.0] {
            apply(f, Op::LoadA);
        }
        if s.erroring {
            // an open breaker whose retry time has come: the next entry is a probe
            cb::load_rules(vec![cb_rule(R1, 1.0), cb_rule(R2, 100.0)]);
            let e = EntryBuilder::new(R1.to_string()).build().expect("first entry");
            e.set_err(sentinel_core::Error::msg("x"));
            e.exit();
            advance_ms(150);
            if s.reject_probe {
                flow::load_rules_of_resource(&R1.to_string(), vec![flow_rule(R1, 0.0)]).unwrap();
            }
        }
    }
    let mut hs = vec![];
    for part in [Some(s.a.clone()), Some(s.b.clone()), s.c.clone()].into_iter().flatten() {
        hs.push(thread::spawn(move || {
            for op in &part.1 {
                apply(part.0, *op);
            }
        }));
    }
    if s.entries {
        let erroring = s.erroring;
        hs.push(thread::spawn(move || {
            for _ in 0..2 {
                if let Ok(e) = EntryBuilder::new(R1.to_string()).with_args(Some(vec!["v".into()])).build() {
                    if erroring {
                        e.set_err(sentinel_core::Error::msg("x"));
                    }
                    e.exit();
                }
                if erroring {
                    advance_ms(150);
                }
            }
        }));
    }
    for h in hs {
        h.join().expect("a scenario thread panicked");
    }
    health_probe();
    clear_everything();
}

fn main() {
    let opts = Opts::parse();
    common::install_panic_capture();
    let mut rep = Report::new("C15", &opts);
    let mut scns: Vec<Scn> = vec![];
    // all unordered pairs of operations within each family, with an entry thread
    for f in [Fam::Flow, Fam::Hot, Fam::Cb, Fam::Iso, Fam::Sys] {
        for (i, a) in OPS.iter().enumerate() {
            for b in &OPS[i..] {
                scns.push(Scn { gen: Gen::None, a: (f, vec![*a]), b: (f, vec![*b]), c: None, preload: true, entries: true, erroring: false, reject_probe: false, listener: Listener::None });
            }
        }
    }
    // breaker family again with listeners (plain / querying read-only functions) and probing entries
    for l in [Listener::Plain, Listener::Querying] {
        for (i, a) in OPS.iter().enumerate() {
            for b in &OPS[i..] {
                scns.push(Scn { gen: Gen::None, a: (Fam::Cb, vec![*a]), b: (Fam::Cb, vec![*b]), c: None, preload: true, entries: true, erroring: true, reject_probe: false, listener: l });
            }
        }
    }
    // cross-family pairs
    for (fa, fb) in [(Fam::Flow, Fam::Cb), (Fam::Flow, Fam::Hot), (Fam::Cb, Fam::Iso), (Fam::Hot, Fam::Sys), (Fam::Flow, Fam::Iso)] {
        for (a, b) in [(Op::LoadA, Op::LoadB), (Op::Append, Op::Clear), (Op::LoadRes, Op::ClearRes), (Op::Clear, Op::Get)] {
            scns.push(Scn { gen: Gen::None, a: (fa, vec![a]), b: (fb, vec![b]), c: None, preload: true, entries: true, erroring: false, reject_probe: false, listener: Listener::None });
        }
    }
    // a probe that another rule rejects (exit hook rolls the breaker back) racing with breaker removal
    for l in [Listener::None, Listener::Plain] {
        for op in [Op::Clear, Op::LoadB, Op::ClearRes, Op::LoadRes] {
            scns.push(Scn { gen: Gen::None, a: (Fam::Cb, vec![op]), b: (Fam::Cb, vec![Op::Get]), c: None, preload: true, entries: true, erroring: true, reject_probe: true, listener: l });
        }
    }
    // selected triples and two-step threads
    for f in [Fam::Flow, Fam::Hot, Fam::Cb] {
        scns.push(Scn { gen: Gen::None, a: (f, vec![Op::LoadA, Op::Append]), b: (f, vec![Op::Clear, Op::LoadB]), c: Some((f, vec![Op::LoadRes, Op::Get])), preload: false, entries: true, erroring: false, reject_probe: false, listener: Listener::None });
        scns.push(Scn { gen: Gen::None, a: (f, vec![Op::Append, Op::Append]), b: (f, vec![Op::ClearRes, Op::Append]), c: Some((f, vec![Op::LoadB])), preload: true, entries: true, erroring: f == Fam::Cb, reject_probe: false, listener: if f == Fam::Cb { Listener::Plain } else { Listener::None } });
    }
    // an append whose controller / breaker cannot be built, racing with every kind of replacement and removal
    for f in [Fam::Flow, Fam::Hot, Fam::Cb] {
        for b in [Op::LoadA, Op::LoadB, Op::LoadRes, Op::Clear, Op::ClearRes, Op::Append] {
            scns.push(Scn { gen: Gen::None, a: (f, vec![Op::AppendUnbuildable]), b: (f, vec![b]), c: None, preload: true, entries: true, erroring: false, reject_probe: false, listener: Listener::None });
        }
    }
    // custom generators that call read-only manager functions from inside the manager's update
    for g in [Gen::CbQueriesOthers, Gen::CbQueriesOwn, Gen::FlowQueriesOwn, Gen::CrossQuerying] {
        scns.push(Scn { gen: g, a: (Fam::Cb, vec![]), b: (Fam::Cb, vec![]), c: None, preload: false, entries: true, erroring: false, reject_probe: false, listener: Listener::None });
    }
    let budget = if opts.thorough() { 20_000 } else { 800 };
    let only: Option<String> = opts.flag("only-scenario").map(|s| s.to_string());
    let stats = Arc::new(Stats { executions: Default::default(), decisions: Default::default(), distinct: Default::default() });
    let mut distinct_total = 0u64;
    let mut pbt = PbTotals::default();
    for (i, s) in scns.iter().enumerate() {
        if i as u64 % opts.nshards != opts.shard {
            continue;
        }
        if let Some(o) = &only {
            if !s.name().contains(o.as_str()) {
                continue;
            }
        }
        if rep.over_budget() {
            rep.notes.push(format!("stopped before scenario {i}: budget"));
            break;
        }
        let sc = s.clone();
        let before_exec = stats.executions.load(Ordering::Relaxed);
        stats.distinct.lock().unwrap().clear();
        // --part pb|sampled restricts the run to one half (used to measure what each half catches)
        let part = opts.flag("part").unwrap_or("both").to_string();
        let sc1 = sc.clone();
        let mut fails = if part != "pb" { explore(move || scenario(&sc), budget, opts.seed + i as u64 * 31, &stats, 2) } else { vec![] };
        // systematic part: every schedule with at most `bound` preemptions, lower bounds first (sched::enumerate_pb)
        let (bound, cap) = if opts.thorough() { (2usize, 300_000u64) } else { (1usize, 5_000u64) };
        let sc = sc1;
        let pb = enumerate_pb(move || scenario(&sc), bound, if part == "sampled" { 1 } else { cap }, 0, 1, &stats, 2);
        pbt.add(&s.name(), &pb);
        fails.extend(pb.failures.clone());
        let execs = stats.executions.load(Ordering::Relaxed) - before_exec;
        let d = stats.distinct.lock().unwrap().len() as u64;
        distinct_total += d;
        let case = json!({"scenario": s.name(), "executions": execs, "distinct_schedules": d});
        rep.evaluations += execs;
        rep.nontrivial_cases += execs;
        rep.signatures.insert(format!("{}|schedules:{}", s.name(), d));
        if rep.samples.len() < 4 {
            rep.samples.push(case.clone());
        }
        for (sig, detail) in take_found() {
            rep.violation(&sig, detail, case.clone());
        }
        for f in fails {
            let fams = if s.a.0 == s.b.0 { format!("{:?}", s.a.0) } else { format!("{:?}+{:?}", s.a.0, s.b.0) };
            let ops = {
                let mut v: Vec<String> = s.a.1.iter().chain(s.b.1.iter()).chain(s.c.iter().flat_map(|c| c.1.iter())).map(|o| format!("{o:?}")).collect();
                v.sort();
                v.dedup();
                v.join("+")
            };
            let sig = match f.kind.as_str() {
                "panic" if s.gen != Gen::None && f.message.contains("already holds") => format!("deadlock/generator-callback/{:?}", s.gen),
                "panic" => format!("panic/{fams}/{}", common::panic_site(&f.message)),
                k if s.gen != Gen::None => format!("{k}/generator-callback/{:?}", s.gen),
                k => format!("{k}/{fams}/{ops}/{:?}", s.listener),
            };
            rep.violation(&sig, format!("scenario {} under {} (seed {}): {}", s.name(), f.scheduler, f.seed, &f.message[..f.message.len().min(if std::env::var("VERIF_BACKTRACE").is_ok() { 60000 } else { 1800 })]), case.clone());
        }
    }
    rep.extra.insert("executions".into(), json!(stats.executions.load(Ordering::Relaxed)));
    rep.extra.insert("scheduling_decisions".into(), json!(stats.decisions.load(Ordering::Relaxed)));
    rep.extra.insert("distinct_schedules".into(), json!(distinct_total));
    pbt.into_extra(&mut rep.extra);
    rep.finish()
}
