//! C16 — circuit-breaker transitions are atomic under concurrency: one probe, one winner.
//!
//! Monitor: scheduled threads around each transition of a real breaker — several
//! completions that each would open it, several requests arriving after (or
//! before) the retry timeout, a probe completion racing with new requests and
//! stale completions. Client-boundary log (what build() returned) plus the
//! StateChangeListener log; oracles: the listener log is a path of the state
//! machine ending in current_state(), one Closed->Open per opening, one admitted
//! request per Open->HalfOpen event, nothing admitted while Open before the retry time.

use common::{Opts, Report, T0_MS};
use sched::*;
use sentinel_core::base::EntryStrongPtr;
use sentinel_core::{circuitbreaker as cb, EntryBuilder};
use serde_json::json;
use shuttle::thread;
use std::sync::atomic::Ordering;
use std::sync::{Arc, Mutex};

include!("../../../shared/c16_scn.rs");

fn main() {
    let opts = Opts::parse();
    common::install_panic_capture();
    let mut rep = Report::new("C16", &opts);
    let scns = all_scenarios();
    let budget = if opts.thorough() { 60_000 } else { 3_000 };
    let stats = Arc::new(Stats { executions: Default::default(), decisions: Default::default(), distinct: Default::default() });
    let mut distinct_total = 0u64;
    let mut pbt = PbTotals::default();
    for (i, s) in scns.iter().enumerate() {
        if i as u64 % opts.nshards != opts.shard {
            continue;
        }
        if rep.over_budget() {
            rep.notes.push(format!("stopped before scenario {i}: budget"));
            break;
        }
        let sc = *s;
        let before_exec = stats.executions.load(Ordering::Relaxed);
        stats.distinct.lock().unwrap().clear();
        // --part pb|sampled restricts the run to one half (used to measure what each half catches)
        let part = opts.flag("part").unwrap_or("both").to_string();
        let sc1 = sc.clone();
        let mut fails = if part != "pb" { explore(move || scenario(sc), budget, opts.seed + i as u64 * 31, &stats, 2) } else { vec![] };
        // systematic part: every schedule with at most `bound` preemptions, lower bounds first (sched::enumerate_pb)
        let (bound, cap) = if opts.thorough() { (2usize, 400_000u64) } else { (2usize, 6_000u64) };
        let sc = sc1;
        let pb = enumerate_pb(move || scenario(sc), bound, if part == "sampled" { 1 } else { cap }, 0, 1, &stats, 2);
        pbt.add(&s.name(), &pb);
        fails.extend(pb.failures.clone());
        let execs = stats.executions.load(Ordering::Relaxed) - before_exec;
        let d = stats.distinct.lock().unwrap().len() as u64;
        distinct_total += d;
        let case = json!({"scenario": s.name(), "executions": execs, "distinct_schedules": d});
        rep.evaluations += execs;
        rep.nontrivial_cases += execs;
        rep.signatures.insert(format!("{}|schedules:{}", s.name(), d));
        if rep.samples.len() < 4 {
            rep.samples.push(case.clone());
        }
        for (sig, detail) in take_found() {
            rep.violation(&sig, detail, case.clone());
        }
        for f in fails {
            let sig = match f.kind.as_str() {
                "panic" => format!("panic/{}", common::panic_site(&f.message)),
                k => format!("{k}/{}", s.name()),
            };
            rep.violation(&sig, format!("scenario {} under {} (seed {}): {}", s.name(), f.scheduler, f.seed, &f.message[..f.message.len().min(1500)]), case.clone());
        }
    }
    rep.extra.insert("executions".into(), json!(stats.executions.load(Ordering::Relaxed)));
    rep.extra.insert("scheduling_decisions".into(), json!(stats.decisions.load(Ordering::Relaxed)));
    rep.extra.insert("distinct_schedules".into(), json!(distinct_total));
    pbt.into_extra(&mut rep.extra);
    rep.finish()
}
