//! C11 (concurrent half) — a reload that leaves a resource's rules equal must be
//! invisible to entries that run *while* it happens.
//!
//! The sequential monitor (seq/src/bin/c11.rs) compares whole traces with and
//! without a reload. Here one scheduled thread reloads rules (load-all with the
//! resource's rules equal under new ids and another resource changed, or
//! load-for-resource of the other resource) while another thread requests entries
//! on a resource whose unchanged rule rejects everything at this instant (flow
//! threshold 0 / drained hotspot bucket / saturated concurrency / isolation cap
//! reached / breaker Open before its retry time). In every schedule each request
//! must be rejected exactly as without the reload, afterwards too, and the
//! enforcing object of the unchanged rule must be the same object as before.

use common::{Opts, Report, T0_MS};
use sched::*;
use sentinel_core::{circuitbreaker as cb, flow, hotspot, isolation, EntryBuilder};
use serde_json::json;
use shuttle::thread;
use std::sync::atomic::Ordering;
use std::sync::Arc;

const R1: &str = "c11c-r1";
const R2: &str = "c11c-r2";

#[derive(Clone, Copy, Debug, PartialEq)]
enum Fam {
    Flow,
    HotQps,
    HotConc,
    Iso,
    Cb,
}

#[derive(Clone, Copy, Debug, PartialEq)]
enum Reload {
    /// load_rules(all): R1's rules equal (fresh Arcs, fresh ids), R2's rule changed
    AllEqualPlusChanged,
    /// load_rules(all): R1's rules equal, R2 removed
    AllEqualOtherRemoved,
    /// load_rules_of_resource(R2, changed): R1 is not mentioned at all
    OtherResource,
}

#[derive(Clone, Copy, Debug)]
struct Scn {
    fam: Fam,
    reload: Reload,
}

impl Scn {
    fn name(&self) -> String {
        format!("{:?}|{:?}", self.fam, self.reload)
    }
}

fn flow_rule(res: &str, th: f64) -> Arc<flow::Rule> {
    Arc::new(flow::Rule { resource: res.into(), threshold: th, ..Default::default() })
}
fn hot_rule(res: &str, conc: bool, th: u64) -> Arc<hotspot::Rule> {
    Arc::new(hotspot::Rule {
        resource: res.into(),
        metric_type: if conc { hotspot::MetricType::Concurrency } else { hotspot::MetricType::QPS },
        param_index: 0,
        threshold: th,
        duration_in_sec: 600,
        params_max_capacity: 8,
        ..Default::default()
    })
}
fn iso_rule(res: &str, th: u32) -> Arc<isolation::Rule> {
    Arc::new(isolation::Rule { resource: res.into(), threshold: th, ..Default::default() })
}
fn cb_rule(res: &str, th: f64) -> Arc<cb::Rule> {
    Arc::new(cb::Rule { resource: res.into(), strategy: cb::BreakerStrategy::ErrorCount, threshold: th, stat_interval_ms: 10_000, retry_timeout_ms: 60_000, min_request_amount: 1, ..Default::default() })
}

fn load_all(fam: Fam, with_r2: Option<u64>) {
    // R1's rule with the SAME content every time (new Arc, new id); R2's threshold as given
    match fam {
        Fam::Flow => {
            let mut v = vec![flow_rule(R1, 0.0)];
            if let Some(t) = with_r2 {
                v.push(flow_rule(R2, t as f64));
            }
            flow::load_rules(v);
        }
        Fam::HotQps | Fam::HotConc => {
            let mut v = vec![hot_rule(R1, fam == Fam::HotConc, 1)];
            if let Some(t) = with_r2 {
                v.push(hot_rule(R2, fam == Fam::HotConc, t));
            }
            hotspot::load_rules(v);
        }
        Fam::Iso => {
            let mut v = vec![iso_rule(R1, 1)];
            if let Some(t) = with_r2 {
                v.push(iso_rule(R2, t as u32));
            }
            isolation::load_rules(v);
        }
        Fam::Cb => {
            let mut v = vec![cb_rule(R1, 1.0)];
            if let Some(t) = with_r2 {
                v.push(cb_rule(R2, t as f64));
            }
            cb::load_rules(v);
        }
    }
}

fn load_r2(fam: Fam, t: u64) {
    let r2 = R2.to_string();
    match fam {
        Fam::Flow => {
            let _ = flow::load_rules_of_resource(&r2, vec![flow_rule(R2, t as f64)]);
        }
        Fam::HotQps | Fam::HotConc => {
            let _ = hotspot::load_rules_of_resource(&r2, vec![hot_rule(R2, fam == Fam::HotConc, t)]);
        }
        Fam::Iso => {
            let _ = isolation::load_rules_of_resource(&r2, vec![iso_rule(R2, t as u32)]);
        }
        Fam::Cb => {
            let _ = cb::load_rules_of_resource(&r2, vec![cb_rule(R2, t as f64)]);
        }
    }
}

/// address of the object enforcing R1's rule
fn enforcer(fam: Fam) -> Vec<usize> {
    let r1 = R1.to_string();
    match fam {
        Fam::Flow => flow::get_traffic_controller_list_for(&r1).iter().map(|c| Arc::as_ptr(c) as *const () as usize).collect(),
        Fam::HotQps | Fam::HotConc => hotspot::get_traffic_controller_list_for(&r1).iter().map(|c| Arc::as_ptr(c) as *const () as usize).collect(),
        Fam::Iso => isolation::get_rules_of_resource(&r1).iter().map(|_| 1usize).collect(),
        Fam::Cb => cb::get_breakers_of_resource(&r1).iter().map(|c| Arc::as_ptr(c) as *const () as usize).collect(),
    }
}

fn request() -> bool {
    match EntryBuilder::new(R1.to_string()).with_args(Some(vec!["v".to_string()])).build() {
        Ok(e) => {
            e.exit();
            true
        }
        Err(_) => false,
    }
}

fn scenario(s: Scn) {
    set_ms(T0_MS + 250);
    let name = s.name();
    load_all(s.fam, Some(5));
    // bring R1 to "rejects everything now"
    let mut held = vec![];
    match s.fam {
        Fam::Flow => {}
        Fam::HotQps => {
            // the bucket holds 1 token per 600 s: drain it
            let e = EntryBuilder::new(R1.to_string()).with_args(Some(vec!["v".to_string()])).build().expect("first token");
            e.exit();
        }
        Fam::HotConc | Fam::Iso => {
            held.push(EntryBuilder::new(R1.to_string()).with_args(Some(vec!["v".to_string()])).build().expect("first entry fits"));
        }
        Fam::Cb => {
            let e = EntryBuilder::new(R1.to_string()).build().expect("closed breaker admits");
            e.set_err(sentinel_core::Error::msg("x"));
            e.exit();
        }
    }
    if request() {
        found("setup/not-saturated", format!("{name}: the resource was expected to reject everything before the reload"));
    }
    let before = enforcer(s.fam);
    let fam = s.fam;
    let reload = s.reload;
    let a = thread::spawn(move || match reload {
        Reload::AllEqualPlusChanged => load_all(fam, Some(7)),
        Reload::AllEqualOtherRemoved => load_all(fam, None),
        Reload::OtherResource => load_r2(fam, 7),
    });
    let b = thread::spawn(move || (request(), request()));
    a.join().expect("reload thread");
    let (x, y) = b.join().expect("request thread");
    if x || y {
        found(
            "reload/unchanged-rule-not-enforced-during-reload",
            format!("{name}: a request on a resource whose (unchanged) rule rejects everything was admitted while the reload ran (first {x}, second {y})"),
        );
    }
    if request() {
        found("reload/unchanged-rule-not-enforced-after-reload", format!("{name}: admitted after the reload although nothing about the resource changed"));
    }
    let after = enforcer(s.fam);
    if before != after {
        found("reload/enforcing-object-replaced", format!("{name}: enforcing objects before {before:?}, after {after:?}"));
    }
    for e in held {
        e.exit();
    }
    clear_everything();
}

fn main() {
    let opts = Opts::parse();
    common::install_panic_capture();
    let mut rep = Report::new("C11", &opts);
    let mut scns = vec![];
    for fam in [Fam::Flow, Fam::HotQps, Fam::HotConc, Fam::Iso, Fam::Cb] {
        for reload in [Reload::AllEqualPlusChanged, Reload::AllEqualOtherRemoved, Reload::OtherResource] {
            scns.push(Scn { fam, reload });
        }
    }
    let budget = if opts.thorough() { 30_000 } else { 1_500 };
    let stats = Arc::new(Stats { executions: Default::default(), decisions: Default::default(), distinct: Default::default() });
    let mut pbt = PbTotals::default();
    let mut distinct_total = 0u64;
    for (i, s) in scns.iter().enumerate() {
        if i as u64 % opts.nshards != opts.shard {
            continue;
        }
        let sc = *s;
        let before_exec = stats.executions.load(Ordering::Relaxed);
        stats.distinct.lock().unwrap().clear();
        let mut fails = explore(move || scenario(sc), budget, opts.seed + i as u64 * 31, &stats, 2);
        let (bound, free, cap) = if opts.thorough() { (2usize, 2usize, 300_000u64) } else { (1usize, 1usize, 6_000u64) };
        let pb = enumerate_pb_free(move || scenario(sc), bound, free, cap, 0, 1, &stats, 2);
        pbt.add(&s.name(), &pb);
        fails.extend(pb.failures.clone());
        let execs = stats.executions.load(Ordering::Relaxed) - before_exec;
        let d = stats.distinct.lock().unwrap().len() as u64;
        distinct_total += d;
        let case = json!({"scenario": s.name(), "executions": execs, "distinct_schedules": d, "concurrent_half": true});
        rep.evaluations += execs;
        rep.nontrivial_cases += execs;
        rep.signatures.insert(format!("concurrent|{}", s.name()));
        for (sig, detail) in take_found() {
            rep.violation(&format!("concurrent/{sig}"), detail, case.clone());
        }
        for f in fails {
            let sig = match f.kind.as_str() {
                "panic" => format!("concurrent/panic/{}", common::panic_site(&f.message)),
                k => format!("concurrent/{k}/{}", s.name()),
            };
            rep.violation(&sig, format!("scenario {} under {} (seed {}): {}", s.name(), f.scheduler, f.seed, &f.message[..f.message.len().min(1500)]), case.clone());
        }
    }
    rep.count("concurrent_reload_executions", stats.executions.load(Ordering::Relaxed));
    rep.count("concurrent_reload_distinct_schedules", distinct_total);
    pbt.into_extra(&mut rep.extra);
    rep.finish()
}
