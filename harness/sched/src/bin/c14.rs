//! C14 — concurrent entries share one statistics node, accounted without loss or excess.
//!
//! Monitor: 2-3 scheduled threads build and exit entries on one (brand-new or
//! existing) resource under randomised and PCT schedules of the real code; after
//! join the harness compares the node every entry was accounted on (Arc identity),
//! the in-flight count and the pass / completion / response-time totals with the
//! per-thread ledgers. A further thread may step the virtual clock across a
//! bucket edge at a scheduler-chosen point (then totals may only be lower).

use common::{Opts, Report, T0_MS};
use sched::*;
use sentinel_core::base::{ConcurrencyStat, MetricEvent, ReadStat, StatNode, TrafficType};
use sentinel_core::{stat, EntryBuilder};
use serde_json::json;
use shuttle::thread;
use std::sync::atomic::Ordering;
use std::sync::Arc;

#[derive(Clone, Copy, Debug)]
struct Scn {
    threads: usize,
    pairs: usize,
    preexisting: bool,
    inbound: bool,
    /// ms the clock thread advances by (0 = no clock thread)
    clock_step: u64,
    /// last build of every thread is left open
    leave_open: bool,
    batch: u32,
}

impl Scn {
    fn name(&self) -> String {
        format!(
            "t{}p{}{}{}{}{}b{}",
            self.threads,
            self.pairs,
            if self.preexisting { "-existing" } else { "-fresh" },
            if self.inbound { "-in" } else { "-out" },
            if self.clock_step > 0 { format!("-step{}", self.clock_step) } else { "-fixed".into() },
            if self.leave_open { "-open" } else { "" },
            self.batch
        )
    }
}

#[derive(Default)]
struct Ledger {
    passes: u64,
    completes: u64,
    rt: u64,
    open: u32,
    nodes: Vec<usize>,
    /// entries deliberately left un-exited: kept alive until the oracle has run, then dropped (not leaked:
    /// a leaked entry pins its statistics node, and the thorough tier runs hundreds of thousands of executions)
    kept: Vec<sentinel_core::base::EntryStrongPtr>,
}

fn scenario(s: Scn) {
    // fixed instant well inside a 500 ms bucket (250 ms past the edge)
    set_ms(T0_MS + 250);
    let res = "c14-res".to_string();
    let tt = if s.inbound { TrafficType::Inbound } else { TrafficType::Outbound };
    let mut main_ledger = Ledger::default();
    if s.preexisting {
        let e = EntryBuilder::new(res.clone()).with_traffic_type(tt).build().expect("no rules");
        e.exit();
        main_ledger.passes += 1;
        main_ledger.completes += 1;
    }
    let mut handles = vec![];
    for _ in 0..s.threads {
        let res = res.clone();
        handles.push(thread::spawn(move || {
            let mut l = Ledger::default();
            for k in 0..s.pairs {
                let e = EntryBuilder::new(res.clone()).with_traffic_type(tt).with_batch_count(s.batch).build().expect("no rules loaded");
                l.passes += s.batch as u64;
                let ctx = e.context();
                if let Some(n) = ctx.read().unwrap().stat_node() {
                    l.nodes.push(Arc::as_ptr(&n) as *const () as usize);
                }
                if s.leave_open && k + 1 == s.pairs {
                    l.open += 1;
                    l.kept.push(e);
                } else {
                    e.exit();
                    l.completes += s.batch as u64;
                    l.rt += ctx.read().unwrap().round_trip();
                }
            }
            l
        }));
    }
    let clock = if s.clock_step > 0 {
        Some(thread::spawn(move || {
            thread::yield_now();
            advance_ms(s.clock_step);
        }))
    } else {
        None
    };
    let mut total = main_ledger;
    for h in handles {
        let l = h.join().expect("worker thread");
        total.passes += l.passes;
        total.completes += l.completes;
        total.rt += l.rt;
        total.open += l.open;
        total.nodes.extend(l.nodes);
        total.kept.extend(l.kept);
    }
    if let Some(c) = clock {
        c.join().expect("clock thread");
    }
    let name = s.name();
    // the scenario starts 250 ms into a 500 ms bucket: a step below 250 ms keeps all activity in that bucket
    let within_bucket = s.clock_step < 250;
    // ---- oracle
    match stat::get_resource_node(&res) {
        None => found("node/missing-from-map", format!("{name}: no node registered for the resource")),
        Some(node) => {
            let p = Arc::as_ptr(&node) as *const () as usize;
            let distinct: std::collections::BTreeSet<usize> = total.nodes.iter().cloned().collect();
            if distinct.len() > 1 {
                found("node/entries-accounted-on-different-nodes", format!("{name}: {} entries used {} different statistics nodes", total.nodes.len(), distinct.len()));
            } else if distinct.iter().any(|x| *x != p) {
                found("node/entries-not-on-the-registered-node", format!("{name}: entries used a node that is not the one in the map"));
            }
            let c = node.current_concurrency();
            if c != total.open {
                found(
                    if c < total.open { "in-flight/lost" } else { "in-flight/excess" },
                    format!("{name}: in-flight {c}, un-exited entries {}", total.open),
                );
            }
            let wide = node.generate_read_stat(20, 10_000).expect("10 s window");
            for (ev, want, what) in [(MetricEvent::Pass, total.passes, "pass"), (MetricEvent::Complete, total.completes, "complete"), (MetricEvent::Rt, total.rt, "rt")] {
                let got = wide.sum(ev);
                if got > want {
                    found(&format!("totals/{what}-exceeds-what-was-recorded"), format!("{name}: node reports {got}, threads recorded {want}"));
                } else if got < want && within_bucket {
                    found(&format!("totals/{what}-lost-within-one-bucket"), format!("{name}: node reports {got}, threads recorded {want} (all activity inside one bucket)"));
                }
            }
        }
    }
    if s.inbound {
        let inb = stat::inbound_node();
        let wide = inb.generate_read_stat(20, 10_000).expect("10 s window");
        let c = inb.current_concurrency();
        if c != total.open {
            found(if c < total.open { "inbound/in-flight-lost" } else { "inbound/in-flight-excess" }, format!("{name}: inbound in-flight {c}, expected {}", total.open));
        }
        for (ev, want, what) in [(MetricEvent::Pass, total.passes, "pass"), (MetricEvent::Complete, total.completes, "complete")] {
            let got = wide.sum(ev);
            if got > want {
                found(&format!("inbound/{what}-exceeds-what-was-recorded"), format!("{name}: {got} > {want}"));
            } else if got < want && within_bucket {
                found(&format!("inbound/{what}-lost-within-one-bucket"), format!("{name}: {got} < {want}"));
            }
        }
    }
    clear_everything();
}

fn main() {
    let opts = Opts::parse();
    common::install_panic_capture();
    let mut rep = Report::new("C14", &opts);
    let mut scns = vec![];
    for threads in [2usize, 3] {
        for pairs in [1usize, 2] {
            for preexisting in [false, true] {
                for inbound in [false, true] {
                    // 0: clock fixed; 100: a step inside the bucket (response times become non-zero, totals stay
                    // exact); 300 / 600: across one / two bucket edges; 10_000: one whole ring interval (the same slot again)
                    for clock_step in [0u64, 100, 300, 600, 10_000] {
                        for leave_open in [false, true] {
                            if threads == 3 && pairs == 2 && clock_step >= 600 {
                                continue;
                            }
                            if (clock_step == 100 || clock_step == 10_000) && (leave_open || (threads == 3 && pairs == 2)) {
                                continue;
                            }
                            scns.push(Scn { threads, pairs, preexisting, inbound, clock_step, leave_open, batch: if pairs == 2 { 3 } else { 1 } });
                        }
                    }
                }
            }
        }
    }
    let budget = if opts.thorough() { 50_000 } else { 5_000 };
    let stats = Arc::new(Stats { executions: Default::default(), decisions: Default::default(), distinct: Default::default() });
    let mut distinct_total = 0u64;
    let mut pbt = PbTotals::default();
    for (i, s) in scns.iter().enumerate() {
        if i as u64 % opts.nshards != opts.shard {
            continue;
        }
        if rep.over_budget() {
            rep.notes.push(format!("stopped before scenario {i}: budget"));
            break;
        }
        let sc = *s;
        let before_exec = stats.executions.load(Ordering::Relaxed);
        stats.distinct.lock().unwrap().clear();
        // --part pb|sampled restricts the run to one half (used to measure what each half catches)
        let part = opts.flag("part").unwrap_or("both").to_string();
        let fails = if part != "pb" { explore(move || scenario(sc), budget, opts.seed + i as u64 * 31, &stats, 3) } else { vec![] };
        // systematic part: every schedule with at most `bound` preemptions (CHESS-style), see sched::enumerate_pb
        let small = s.threads == 2 && s.pairs == 1;
        // (bound, cap on free deviations per schedule, cap on executions)
        let (bound, free, cap) = if opts.thorough() {
            if small && s.clock_step == 0 { (3, 3, 300_000) } else if s.threads == 2 { (2, 3, 150_000) } else { (2, 2, 80_000) }
        } else if small && s.clock_step == 0 {
            (2, 3, 40_000)
        } else {
            (1, 1, 12_000)
        };
        let pb = enumerate_pb_free(move || scenario(sc), bound, free, if part == "sampled" { 1 } else { cap }, 0, 1, &stats, 3);
        pbt.add(&s.name(), &pb);
        let mut fails = fails;
        fails.extend(pb.failures.clone());
        let execs = stats.executions.load(Ordering::Relaxed) - before_exec;
        let d = stats.distinct.lock().unwrap().len() as u64;
        distinct_total += d;
        let case = json!({"scenario": s.name(), "executions": execs, "distinct_schedules": d});
        // coverage: one signature per (scenario, distinct-schedule bucket) is not measurable
        // as strings; report distinct schedules as a number and scenarios as signatures
        rep.evaluations += execs;
        rep.nontrivial_cases += execs;
        rep.signatures.insert(format!("{}|schedules:{}", s.name(), d));
        if rep.samples.len() < 4 {
            rep.samples.push(case.clone());
        }
        for (sig, detail) in take_found() {
            rep.violation(&sig, detail, case.clone());
        }
        for f in fails {
            rep.violation(
                &format!("{}/{}", f.kind, if f.kind == "panic" { common::panic_site(&f.message) } else { s.name() }),
                format!("scenario {} under {} (seed {}): {}", s.name(), f.scheduler, f.seed, &f.message[..f.message.len().min(1500)]),
                case.clone(),
            );
        }
    }
    rep.extra.insert("executions".into(), json!(stats.executions.load(Ordering::Relaxed)));
    rep.extra.insert("scheduling_decisions".into(), json!(stats.decisions.load(Ordering::Relaxed)));
    rep.extra.insert("distinct_schedules".into(), json!(distinct_total));
    pbt.into_extra(&mut rep.extra);
    rep.finish()
}
