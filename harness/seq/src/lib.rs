//! Helpers shared by the sequential monitors (they all drive the real
//! `sentinel-core` through its public API under the virtual clock).

use sentinel_core::utils::verif_clock;

/// virtual clock in milliseconds
pub struct VClock;

impl VClock {
    pub fn install(ms: u64) {
        verif_clock::install(ms as i64 * 1_000_000);
    }
    pub fn set_ms(ms: u64) {
        verif_clock::set_ns(ms as i64 * 1_000_000);
    }
    pub fn set_ns(ns: i64) {
        verif_clock::set_ns(ns);
    }
    pub fn advance_ms(ms: u64) {
        verif_clock::advance_ns(ms as i64 * 1_000_000);
    }
    pub fn now_ms() -> u64 {
        (verif_clock::now_ns().expect("clock installed") / 1_000_000) as u64
    }
    pub fn now_ns() -> i64 {
        verif_clock::now_ns().expect("clock installed")
    }
}

/// Pull `key: <number>` out of a `{:?}` rendering (first occurrence).
pub fn debug_field_u64(dbg: &str, key: &str) -> Option<u64> {
    let pat = format!("{key}: ");
    let i = dbg.find(&pat)? + pat.len();
    let rest = &dbg[i..];
    let end = rest
        .find(|c: char| !c.is_ascii_digit())
        .unwrap_or(rest.len());
    rest[..end].parse().ok()
}

/// All occurrences of `key: <number>`.
pub fn debug_fields_u64(dbg: &str, key: &str) -> Vec<u64> {
    let pat = format!("{key}: ");
    let mut out = Vec::new();
    let mut s = dbg;
    while let Some(i) = s.find(&pat) {
        let rest = &s[i + pat.len()..];
        let end = rest
            .find(|c: char| !c.is_ascii_digit())
            .unwrap_or(rest.len());
        if let Ok(v) = rest[..end].parse() {
            out.push(v);
        }
        s = &rest[end..];
    }
    out
}

/// Extract `id: "<...>"` of the rule named in a block error text.
pub fn err_rule_id(err: &str) -> Option<String> {
    let i = err.find("id: \"")? + 5;
    let rest = &err[i..];
    let end = rest.find('"')?;
    Some(rest[..end].to_string())
}

/// `block_type: X` of a block error text.
pub fn err_block_type(err: &str) -> Option<String> {
    let i = err.find("block_type: ")? + 12;
    let rest = &err[i..];
    let end = rest
        .find(|c: char| c == ',' || c == ' ' || c == '}')
        .unwrap_or(rest.len());
    Some(rest[..end].to_string())
}
