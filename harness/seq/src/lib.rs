//! Helpers shared by the sequential monitors (they all drive the real
//! `sentinel-core` through its public API under the virtual clock).

use sentinel_core::utils::verif_clock;

/// virtual clock in milliseconds
pub struct VClock;

impl VClock {
    pub fn install(ms: u64) {
        verif_clock::install(ms as i64 * 1_000_000);
    }
    pub fn set_ms(ms: u64) {
        verif_clock::set_ns(ms as i64 * 1_000_000);
    }
    pub fn set_ns(ns: i64) {
        verif_clock::set_ns(ns);
    }
    pub fn advance_ms(ms: u64) {
        verif_clock::advance_ns(ms as i64 * 1_000_000);
    }
    pub fn now_ms() -> u64 {
        (verif_clock::now_ns().expect("clock installed") / 1_000_000) as u64
    }
    pub fn now_ns() -> i64 {
        verif_clock::now_ns().expect("clock installed")
    }
}

/// Pull `key: <number>` out of a `{:?}` rendering (first occurrence).
pub fn debug_field_u64(dbg: &str, key: &str) -> Option<u64> {
    let pat = format!("{key}: ");
    let i = dbg.find(&pat)? + pat.len();
    let rest = &dbg[i..];
    let end = rest
        .find(|c: char| !c.is_ascii_digit())
        .unwrap_or(rest.len());
    rest[..end].parse().ok()
}

/// All occurrences of `key: <number>`.
pub fn debug_fields_u64(dbg: &str, key: &str) -> Vec<u64> {
    let pat = format!("{key}: ");
    let mut out = Vec::new();
    let mut s = dbg;
    while let Some(i) = s.find(&pat) {
        let rest = &s[i + pat.len()..];
        let end = rest
            .find(|c: char| !c.is_ascii_digit())
            .unwrap_or(rest.len());
        if let Ok(v) = rest[..end].parse() {
            out.push(v);
        }
        s = &rest[end..];
    }
    out
}

/// Extract `id: "<...>"` of the rule named in a block error text.
pub fn err_rule_id(err: &str) -> Option<String> {
    let i = err.find("id: \"")? + 5;
    let rest = &err[i..];
    let end = rest.find('"')?;
    Some(rest[..end].to_string())
}

/// `block_type: X` of a block error text.
pub fn err_block_type(err: &str) -> Option<String> {
    let i = err.find("block_type: ")? + 12;
    let rest = &err[i..];
    let end = rest
        .find(|c: char| c == ',' || c == ' ' || c == '}')
        .unwrap_or(rest.len());
    Some(rest[..end].to_string())
}

// ------------------------------------------------------------------ circuit breaker helpers

use common::models::{BEvent, BState, BStrategy, BreakerSpec};
use sentinel_core::circuitbreaker as cb;
use std::sync::{Arc, Mutex, Once};

pub fn to_bstate(s: cb::State) -> BState {
    match s {
        cb::State::Closed => BState::Closed,
        cb::State::HalfOpen => BState::HalfOpen,
        cb::State::Open => BState::Open,
    }
}

static LISTENER_LOG: Mutex<Vec<(String, BEvent)>> = Mutex::new(Vec::new());
static LISTENER_ONCE: Once = Once::new();

struct RecordingListener;

impl cb::StateChangeListener for RecordingListener {
    fn on_transform_to_closed(&self, prev: cb::State, rule: Arc<cb::Rule>) {
        LISTENER_LOG
            .lock()
            .unwrap()
            .push((rule.id.clone(), BEvent::ToClosed(to_bstate(prev))));
    }
    fn on_transform_to_open(
        &self,
        prev: cb::State,
        rule: Arc<cb::Rule>,
        _snapshot: Option<Arc<sentinel_core::base::Snapshot>>,
    ) {
        LISTENER_LOG
            .lock()
            .unwrap()
            .push((rule.id.clone(), BEvent::ToOpen(to_bstate(prev))));
    }
    fn on_transform_to_half_open(&self, prev: cb::State, rule: Arc<cb::Rule>) {
        LISTENER_LOG
            .lock()
            .unwrap()
            .push((rule.id.clone(), BEvent::ToHalfOpen(to_bstate(prev))));
    }
    fn on_circuit_breaker_drop(&self, _prev: cb::State, _rule: Arc<cb::Rule>) {}
}

/// register the recording listener (once per process)
pub fn install_breaker_listener() {
    LISTENER_ONCE.call_once(|| {
        cb::register_state_change_listeners(vec![Arc::new(RecordingListener)]);
    });
}

pub fn drain_breaker_events() -> Vec<(String, BEvent)> {
    std::mem::take(&mut *LISTENER_LOG.lock().unwrap())
}

pub fn cb_rule(res: &str, s: &BreakerSpec) -> cb::Rule {
    cb::Rule {
        resource: res.to_string(),
        strategy: match s.strategy {
            BStrategy::SlowRatio => cb::BreakerStrategy::SlowRequestRatio,
            BStrategy::ErrorRatio => cb::BreakerStrategy::ErrorRatio,
            BStrategy::ErrorCount => cb::BreakerStrategy::ErrorCount,
        },
        retry_timeout_ms: s.retry_timeout_ms as u32,
        min_request_amount: s.min_request_amount,
        stat_interval_ms: s.stat_interval_ms as u32,
        stat_sliding_window_bucket_count: s.bucket_count as u32,
        max_allowed_rt_ms: s.max_allowed_rt_ms,
        threshold: s.threshold,
        ..Default::default()
    }
}

pub fn spec_json(s: &BreakerSpec) -> serde_json::Value {
    serde_json::json!({
        "strategy": format!("{:?}", s.strategy), "retry_timeout_ms": s.retry_timeout_ms,
        "min_request_amount": s.min_request_amount, "stat_interval_ms": s.stat_interval_ms,
        "bucket_count": s.bucket_count, "max_allowed_rt_ms": s.max_allowed_rt_ms, "threshold": s.threshold,
    })
}

pub fn spec_from_json(v: &serde_json::Value) -> BreakerSpec {
    BreakerSpec {
        strategy: match v["strategy"].as_str().unwrap() {
            "SlowRatio" => BStrategy::SlowRatio,
            "ErrorRatio" => BStrategy::ErrorRatio,
            _ => BStrategy::ErrorCount,
        },
        retry_timeout_ms: v["retry_timeout_ms"].as_u64().unwrap(),
        min_request_amount: v["min_request_amount"].as_u64().unwrap(),
        stat_interval_ms: v["stat_interval_ms"].as_u64().unwrap(),
        bucket_count: v["bucket_count"].as_u64().unwrap(),
        max_allowed_rt_ms: v["max_allowed_rt_ms"].as_u64().unwrap(),
        threshold: v["threshold"].as_f64().unwrap(),
    }
}
