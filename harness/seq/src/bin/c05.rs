//! C05 — concurrency caps (isolation, hotspot concurrency) hold and are reported rightly.
//!
//! Monitor: generated build/exit interleavings against a ledger of in-flight
//! entries (per resource, and per parameter value for hotspot rules); every
//! decision is compared with the cap arithmetic, every rejection's report
//! (block type, rule named) is checked, and the cap itself is asserted on the
//! live node after every operation.

use common::{fresh_name, Opts, Report, Rng, T0_MS};
use sentinel_core::base::{ConcurrencyStat, EntryStrongPtr, ParamsList, ParamsMap};
use sentinel_core::{hotspot, isolation, stat, EntryBuilder};
use seq::*;
use serde_json::{json, Value};
use std::collections::HashMap;
use std::sync::Arc;

#[derive(Clone, Debug)]
struct HotSpec {
    param_index: isize,
    param_key: String,
    threshold: u64,
    overrides: Vec<(String, u64)>,
    capacity: usize,
}

#[derive(Clone, Debug)]
enum Op {
    /// batch, args, attachments
    Enter(u32, Option<Vec<String>>, Option<Vec<(String, String)>>),
    Exit(usize),
    Adv(u64),
    /// the isolation rules of the resource are removed by an empty load-for-resource and then loaded
    /// again (equal content, new ids): the caps must hold afterwards exactly as before
    ReloadIso,
}

#[derive(Clone, Debug)]
struct Case {
    iso: Vec<u32>,
    hot: Vec<HotSpec>,
    t0: u64,
    ops: Vec<Op>,
}

impl Case {
    fn to_json(&self) -> Value {
        json!({
            "iso_thresholds": self.iso,
            "hotspot": self.hot.iter().map(|h| json!({"param_index": h.param_index, "param_key": h.param_key,
                "threshold": h.threshold, "overrides": h.overrides, "capacity": h.capacity})).collect::<Vec<_>>(),
            "t0": self.t0,
            "ops": self.ops.iter().map(|o| match o {
                Op::Enter(b, a, m) => json!(["enter", b, a, m]),
                Op::Exit(i) => json!(["exit", i]),
                Op::Adv(ms) => json!(["adv", ms]),
                Op::ReloadIso => json!(["clear-and-reload-isolation-rules"]),
            }).collect::<Vec<_>>(),
        })
    }
}

// parameter values are plain strings: the empty string and a blank are values like any other
const VALUES: &[&str] = &["a", "", "c", " "];

fn gen_case(rng: &mut Rng, base: u64, long: bool) -> Case {
    let mode = rng.below(5); // 0,1 iso only; 2,3 hotspot only; 4 mixed
    let mut iso = vec![];
    if mode <= 1 || mode == 4 {
        let n = rng.range(1, 3);
        while (iso.len() as u64) < n {
            let t = rng.range(1, 6) as u32;
            if !iso.contains(&t) {
                iso.push(t);
            }
        }
    }
    let mut hot = vec![];
    if mode >= 2 {
        let n = rng.range(1, 2);
        for _ in 0..n {
            let by_key = rng.chance(1, 3);
            let nover = rng.below(3);
            let mut overrides = vec![];
            for _ in 0..nover {
                let v = rng.pick(VALUES).to_string();
                if !overrides.iter().any(|(k, _): &(String, u64)| *k == v) {
                    overrides.push((v, rng.range(1, 4)));
                }
            }
            hot.push(HotSpec {
                // a positive index together with a key is refused by validation: keep 0/negative then
                param_index: if by_key { -(rng.below(3) as isize) } else { rng.range(0, 6) as isize - 3 },
                param_key: if by_key { (*rng.pick(&["k1", "k2"])).to_string() } else { String::new() },
                threshold: rng.range(1, 4),
                overrides,
                capacity: *rng.pick(&[0usize, 4, 8]),
            });
        }
        // two rules must not be equal under rule equality
        if hot.len() == 2 && hot[0].param_index == hot[1].param_index && hot[0].param_key == hot[1].param_key {
            hot[1].threshold = hot[0].threshold + 1;
        }
    }
    let len = if long { 30 + rng.below(100) } else { 10 + rng.below(50) } as usize;
    let mut ops = vec![];
    for _ in 0..len {
        let k = rng.below(10);
        ops.push(if k < 5 {
            let args = match rng.below(6) {
                0 => None,
                1 => Some(vec![]),
                _ => {
                    let n = rng.range(1, 4);
                    Some((0..n).map(|_| rng.pick(VALUES).to_string()).collect())
                }
            };
            let att = match rng.below(4) {
                0 | 1 => None,
                2 => Some(vec![((*rng.pick(&["k1", "k2"])).to_string(), rng.pick(VALUES).to_string())]),
                _ => Some(vec![
                    ("k1".to_string(), rng.pick(VALUES).to_string()),
                    ("k2".to_string(), rng.pick(VALUES).to_string()),
                ]),
            };
            Op::Enter(*rng.pick(&[1u32, 1, 1, 1, 2, 3]), args, att)
        } else if k < 9 {
            Op::Exit(rng.below(16) as usize)
        } else if !iso.is_empty() && rng.chance(1, 4) {
            Op::ReloadIso
        } else {
            Op::Adv(*rng.pick(&[1u64, 400, 1000, 5000]))
        });
    }
    Case {
        iso,
        hot,
        t0: base,
        ops,
    }
}

/// the value a hotspot rule looks at for one entry (key has priority over index)
fn extract(h: &HotSpec, args: &Option<Vec<String>>, att: &Option<Vec<(String, String)>>) -> Option<String> {
    if let Some(att) = att {
        let key = h.param_key.trim();
        if !key.is_empty() {
            if let Some((_, v)) = att.iter().find(|(k, _)| k == key) {
                return Some(v.clone());
            }
        }
    }
    let args = args.as_ref()?;
    let mut idx = h.param_index;
    if idx < 0 {
        idx += args.len() as isize;
    }
    if idx < 0 || idx as usize >= args.len() {
        return None;
    }
    Some(args[idx as usize].clone())
}

struct Outcome {
    sig: Option<String>,
    violation: Option<(String, String)>,
    decisions: u64,
}

fn run_case(case: &Case) -> Outcome {
    let res = fresh_name("c05");
    VClock::set_ms(case.t0);
    let mut iso_rules: Vec<Arc<isolation::Rule>> = case
        .iso
        .iter()
        .map(|t| {
            Arc::new(isolation::Rule {
                resource: res.clone(),
                threshold: *t,
                ..Default::default()
            })
        })
        .collect();
    if !iso_rules.is_empty() {
        isolation::load_rules_of_resource(&res, iso_rules.clone()).unwrap();
    }
    let hot_rules: Vec<Arc<hotspot::Rule>> = case
        .hot
        .iter()
        .map(|h| {
            Arc::new(hotspot::Rule {
                resource: res.clone(),
                metric_type: hotspot::MetricType::Concurrency,
                param_index: h.param_index,
                param_key: h.param_key.clone(),
                threshold: h.threshold,
                params_max_capacity: h.capacity,
                specific_items: h.overrides.iter().cloned().collect(),
                ..Default::default()
            })
        })
        .collect();
    if !hot_rules.is_empty() {
        hotspot::load_rules_of_resource(&res, hot_rules.clone()).unwrap();
    }
    let mut out = Outcome {
        sig: None,
        violation: None,
        decisions: 0,
    };
    if isolation::get_rules_of_resource(&res).len() != iso_rules.len()
        || hotspot::get_rules_of_resource(&res).len() != hot_rules.len()
    {
        out.violation = Some(("setup/rules-missing".into(), "valid rules were not all loaded".into()));
        return out;
    }
    let mut in_flight = 0u32;
    // per hotspot rule: value -> in-flight entries
    let mut per_value: Vec<HashMap<String, u64>> = vec![HashMap::new(); case.hot.len()];
    let mut open: Vec<(EntryStrongPtr, Vec<Option<String>>)> = Vec::new();
    let (mut rej_iso, mut rej_hot, mut adm_after_exit, mut missing_param, mut key_over_index, mut neg_index) =
        (0u32, 0u32, 0u32, 0u32, 0u32, 0u32);
    let mut just_exited = false;
    let mut was_full = false;
    'ops: for (i, op) in case.ops.iter().enumerate() {
        match op {
            Op::Adv(ms) => VClock::advance_ms(*ms),
            Op::ReloadIso => {
                isolation::load_rules_of_resource(&res, vec![]).unwrap();
                let again: Vec<Arc<isolation::Rule>> = case.iso.iter().map(|t| Arc::new(isolation::Rule { resource: res.clone(), threshold: *t, ..Default::default() })).collect();
                let _ = isolation::load_rules_of_resource(&res, again.clone());
                iso_rules = again; // rejection reports name the rules by their (new) ids
                if isolation::get_rules_of_resource(&res).len() != case.iso.len() {
                    out.violation = Some((
                        "isolation/rules-not-active-after-clear-and-reload".into(),
                        format!("op#{i}: after an empty load-for-resource and a reload of the equal rules {} rules are active, {} were given", isolation::get_rules_of_resource(&res).len(), case.iso.len()),
                    ));
                    break 'ops;
                }
            }
            Op::Exit(k) => {
                if open.is_empty() {
                    continue;
                }
                let (e, vals) = open.remove(*k % open.len());
                e.exit();
                in_flight -= 1;
                for (r, v) in vals.iter().enumerate() {
                    if let Some(v) = v {
                        *per_value[r].get_mut(v).unwrap() -= 1;
                    }
                }
                just_exited = was_full;
            }
            Op::Enter(batch, args, att) => {
                out.decisions += 1;
                // isolation: every rule must fit in-flight + batch
                let iso_exceeded: Vec<&str> = iso_rules
                    .iter()
                    .filter(|r| in_flight + *batch > r.threshold)
                    .map(|r| r.id.as_str())
                    .collect();
                // hotspot
                let vals: Vec<Option<String>> = case.hot.iter().map(|h| extract(h, args, att)).collect();
                let mut hot_must_admit = true; // under both readings of "batch"
                let mut hot_must_reject = false; // under both readings
                let mut hot_exceeded: Vec<&str> = vec![];
                for (r, h) in case.hot.iter().enumerate() {
                    match &vals[r] {
                        None => missing_param += 1,
                        Some(v) => {
                            if !h.param_key.is_empty() && att.as_ref().map_or(false, |a| a.iter().any(|(k, _)| *k == h.param_key)) && args.is_some() {
                                key_over_index += 1;
                            }
                            if h.param_index < 0 {
                                neg_index += 1;
                            }
                            let t = h.overrides.iter().find(|(k, _)| k == v).map(|x| x.1).unwrap_or(h.threshold);
                            let cur = *per_value[r].get(v).unwrap_or(&0);
                            if cur + *batch as u64 > t {
                                hot_must_admit = false;
                            }
                            if cur + 1 > t {
                                hot_must_reject = true;
                                hot_exceeded.push(hot_rules[r].id.as_str());
                            }
                        }
                    }
                }
                let mut b = EntryBuilder::new(res.clone()).with_batch_count(*batch);
                if let Some(a) = args {
                    b = b.with_args(Some(a.clone() as ParamsList));
                }
                if let Some(m) = att {
                    b = b.with_attachments(Some(m.iter().cloned().collect::<ParamsMap>()));
                }
                let r = b.build();
                let iso_ok = iso_exceeded.is_empty();
                match r {
                    Ok(e) => {
                        if !iso_ok {
                            out.violation = Some((
                                "isolation/admitted-above-cap".into(),
                                format!("op#{i}: admitted with in-flight {in_flight} + batch {batch} over thresholds {:?}", case.iso),
                            ));
                            e.exit();
                            break 'ops;
                        }
                        if hot_must_reject {
                            out.violation = Some((
                                "hotspot/admitted-above-cap".into(),
                                format!("op#{i}: admitted although a value is at its cap: values {vals:?}, in-flight {per_value:?}"),
                            ));
                            e.exit();
                            break 'ops;
                        }
                        if just_exited {
                            adm_after_exit += 1;
                        }
                        in_flight += 1;
                        for (r, v) in vals.iter().enumerate() {
                            if let Some(v) = v {
                                *per_value[r].entry(v.clone()).or_insert(0) += 1;
                            }
                        }
                        open.push((e, vals));
                    }
                    Err(err) => {
                        let txt = err.to_string();
                        if iso_ok && hot_must_admit {
                            out.violation = Some((
                                format!("{}/rejected-although-it-fits", if case.hot.is_empty() { "isolation" } else if case.iso.is_empty() { "hotspot" } else { "mixed" }),
                                format!("op#{i}: rejected with in-flight {in_flight}, batch {batch}, thresholds {:?}, values {vals:?}, per-value {per_value:?}: {}", case.iso, &txt[..txt.len().min(200)]),
                            ));
                            break 'ops;
                        }
                        let bt = err_block_type(&txt).unwrap_or_default();
                        let id = err_rule_id(&txt).unwrap_or_default();
                        // the report comes from the last slot that blocked (hotspot runs after isolation)
                        if bt == "HotSpotParamFlow" {
                            rej_hot += 1;
                            if iso_ok && !hot_must_reject && hot_must_admit {
                                unreachable!();
                            }
                            let applicable: Vec<&str> = hot_rules.iter().enumerate().filter(|(r, _)| vals[*r].is_some()).map(|(_, r)| r.id.as_str()).collect();
                            if !applicable.contains(&id.as_str()) {
                                out.violation = Some(("hotspot/report-names-wrong-rule".into(), format!("names {id}, applicable {applicable:?}")));
                                break 'ops;
                            }
                        } else if !iso_ok && (bt == "Isolation" || case.hot.is_empty() || hot_must_admit || !hot_must_reject) {
                            rej_iso += 1;
                            if bt != "Isolation" {
                                out.violation = Some((
                                    "isolation/report-block-type".into(),
                                    format!("an isolation rejection is reported with block_type {bt}"),
                                ));
                                break 'ops;
                            }
                            if !iso_exceeded.contains(&id.as_str()) {
                                out.violation = Some((
                                    "isolation/report-names-wrong-rule".into(),
                                    format!("names rule {id}; exceeded rules: {iso_exceeded:?}"),
                                ));
                                break 'ops;
                            }
                        } else {
                            out.violation = Some((
                                "report/unexpected-block-type".into(),
                                format!("op#{i}: block type {bt} (iso_ok={iso_ok}, hot_must_reject={hot_must_reject})"),
                            ));
                            break 'ops;
                        }
                    }
                }
                just_exited = false;
            }
        }
        // the cap on the live node
        if let Some(node) = stat::get_resource_node(&res) {
            let c = node.current_concurrency();
            if c != in_flight {
                out.violation = Some(("ledger/in-flight-mismatch".into(), format!("node {c}, ledger {in_flight}")));
                break 'ops;
            }
            if let Some(min) = case.iso.iter().min() {
                if c > *min {
                    out.violation = Some(("isolation/cap-exceeded".into(), format!("in-flight {c} > threshold {min}")));
                    break 'ops;
                }
                was_full = c == *min;
            }
        }
        // per-value counters as the library sees them
        for (r, tc) in hotspot::get_traffic_controller_list_for(&res).iter().enumerate() {
            let k = hot_rules.iter().position(|x| x.id == tc.rule().id).unwrap_or(r);
            for (v, n) in &per_value[k] {
                let t = case.hot[k].overrides.iter().find(|(kk, _)| kk == v).map(|x| x.1).unwrap_or(case.hot[k].threshold);
                if *n > t {
                    out.violation = Some(("hotspot/cap-exceeded".into(), format!("value {v}: in-flight {n} > {t}")));
                    break 'ops;
                }
            }
        }
    }
    for (e, _) in open {
        e.exit();
    }
    let _ = isolation::load_rules_of_resource(&res, vec![]);
    let _ = hotspot::load_rules_of_resource(&res, vec![]);
    if (rej_iso > 0 || rej_hot > 0) && (adm_after_exit > 0 || rej_hot > 0) {
        out.sig = Some(format!(
            "iso{}|hot{}|rejiso{}|rejhot{}|reuse{}|missing{}|key{}|neg{}|ovr{}",
            case.iso.len(),
            case.hot.len(),
            (rej_iso > 0) as u8,
            (rej_hot > 0) as u8,
            (adm_after_exit > 0) as u8,
            (missing_param > 0) as u8,
            (key_over_index > 0) as u8,
            (neg_index > 0) as u8,
            case.hot.iter().map(|h| h.overrides.len()).sum::<usize>().min(3),
        ));
    }
    out
}

fn main() {
    let opts = Opts::parse();
    common::install_panic_capture();
    let mut rep = Report::new("C05", &opts);
    VClock::install(T0_MS);
    let mut rng = opts.rng();
    let thorough = opts.thorough();
    let ncases = if thorough { 150_000 } else { 15_000 };
    let mut base = T0_MS + 50_000_000 * (1 + opts.shard);
    for i in 0..ncases {
        if rep.over_budget() {
            break;
        }
        base += 100_000;
        let case = gen_case(&mut rng, base, thorough);
        let r = common::catch(|| run_case(&case));
        match r {
            Ok(o) => {
                rep.count("decisions", o.decisions);
                rep.case(o.sig.clone(), || case.to_json());
                if let Some((sig, detail)) = o.violation {
                    rep.violation(&sig, detail, case.to_json());
                }
            }
            Err(p) => {
                rep.case(None, || Value::Null);
                rep.violation(&format!("panic/{}", common::panic_site(&p)), p, case.to_json());
            }
        }
        if i % 300 == 299 {
            stat::reset_resource_map();
        }
    }
    rep.finish()
}
