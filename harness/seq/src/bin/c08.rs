//! C08 — warm-up ramps from threshold/coldFactor up to threshold, and cools when idle.
//!
//! Monitor: trace specification over generated demand profiles under the virtual
//! clock. Recorded per 500 ms bucket: admissions; once per second: the
//! calculator's allowance (read right after a real request of that second).

use common::{fresh_name, Opts, Report, Rng, T0_MS};
use sentinel_core::{flow, EntryBuilder};
use seq::*;
use serde_json::{json, Value};
use std::collections::BTreeMap;
use std::sync::Arc;

#[derive(Clone, Debug)]
enum Phase {
    /// saturating demand for n seconds
    Saturate(u64),
    /// offer exactly the current allowance each second, for n seconds
    AtAllowance(u64),
    /// offer k requests per second (k < q/c), for n seconds
    Low(u64, u64),
    /// no traffic for n seconds
    Idle(u64),
}

#[derive(Clone, Debug)]
struct Case {
    q: u64,
    c: u32,
    p: u32,
    grid: u64,
    /// offset of the first arrival inside every second (< grid)
    tick_off: u64,
    /// multiple of 1000: phases are whole calendar seconds, so that "per statistic
    /// interval" is measured on bucket-aligned windows
    t0: u64,
    phases: Vec<Phase>,
}

impl Case {
    fn to_json(&self) -> Value {
        json!({"q": self.q, "cold_factor": self.c, "period_s": self.p, "grid_ms": self.grid, "tick_off": self.tick_off, "t0": self.t0,
               "phases": self.phases.iter().map(|p| format!("{p:?}")).collect::<Vec<_>>()})
    }
    fn ceff(&self) -> u64 {
        if self.c <= 1 { 3 } else { self.c as u64 }
    }
}

fn gen_case(rng: &mut Rng, base: u64, long: bool) -> Case {
    let c = *rng.pick(&[0u32, 2, 3, 4, 5, 6]);
    let ceff = if c <= 1 { 3 } else { c as u64 };
    // one case in five is a *slow ramp*: small threshold that is not a multiple of the cold factor, long
    // warm-up period (the allowance grows by less than one token per second for a while), saturating demand
    let slow_ramp = rng.chance(1, 5);
    let q = loop {
        let q = if slow_ramp {
            rng.range(30, 75)
        } else if rng.chance(1, 3) {
            rng.range(30, 500)
        } else {
            *rng.pick(&[30u64, 40, 60, 64, 100, 101, 150, 250, 499, 500])
        };
        if q >= 10 * ceff && (!slow_ramp || q % ceff != 0) {
            break q;
        }
        if slow_ramp && ceff > 7 {
            break 10 * ceff + 1;
        }
    };
    let p = if slow_ramp {
        if long { *rng.pick(&[10u32, 13, 20]) } else { *rng.pick(&[8u32, 10, 13]) }
    } else if long {
        *rng.pick(&[1u32, 2, 3, 5, 8, 13, 20])
    } else {
        *rng.pick(&[1u32, 2, 3, 5, 8])
    };
    let grid = if slow_ramp { *rng.pick(&[10u64, 20, 13]) } else { *rng.pick(&[1u64, 2, 5, 10, 20, 7, 13]) };
    let pp = p as u64;
    let warm = 2 * pp + 2;
    let mut phases = vec![];
    match if slow_ramp { 0 } else { rng.below(6) } {
        0 => phases.push(Phase::Saturate(warm + 3 + rng.below(5))),
        1 => {
            // on / off with a gap that must re-cool
            phases.push(Phase::Saturate(warm + rng.below(2 * pp + 3)));
            phases.push(Phase::Idle(*rng.pick(&[2 * pp, 2 * pp + 1, 2 * pp + pp / 2, 3 * pp, 5 * pp])));
            phases.push(Phase::Saturate(warm + 2));
        }
        2 => {
            // short gaps: nothing asserted about coldness, bounds must still hold
            phases.push(Phase::Saturate(rng.range(1, warm)));
            phases.push(Phase::Idle(rng.below(2 * pp)));
            phases.push(Phase::Saturate(warm + 2));
        }
        3 => {
            phases.push(Phase::AtAllowance(warm + 3));
            phases.push(Phase::Idle(2 * pp + rng.below(3 * pp + 1)));
            phases.push(Phase::Saturate(3));
        }
        4 => {
            phases.push(Phase::Low((q / ceff).saturating_sub(2).max(1), rng.range(2, 2 * pp + 4)));
            phases.push(Phase::Saturate(warm + 2));
        }
        _ => {
            phases.push(Phase::Saturate(rng.range(1, warm + 2)));
            phases.push(Phase::Low(rng.range(1, (q / ceff).saturating_sub(2).max(1)), rng.range(1, 3 * pp)));
            phases.push(Phase::Saturate(warm + 2));
            phases.push(Phase::Idle(2 * pp + rng.below(2)));
            phases.push(Phase::Saturate(2));
        }
    }
    Case {
        q,
        c,
        p,
        grid,
        tick_off: rng.below(grid),
        t0: base - base % 1000,
        phases,
    }
}

struct Outcome {
    sig: Option<String>,
    violation: Option<(String, String)>,
    requests: u64,
    seconds: u64,
}

fn run_case(case: &Case) -> Outcome {
    let res = fresh_name("c08");
    VClock::set_ms(case.t0);
    flow::load_rules_of_resource(
        &res,
        vec![Arc::new(flow::Rule {
            resource: res.clone(),
            threshold: case.q as f64,
            calculate_strategy: flow::CalculateStrategy::WarmUp,
            control_strategy: flow::ControlStrategy::Reject,
            warm_up_period_sec: case.p,
            warm_up_cold_factor: case.c,
            ..Default::default()
        })],
    )
    .unwrap();
    let tc = flow::get_traffic_controller_list_for(&res).pop().expect("controller");
    let q = case.q;
    let cold = q / case.ceff(); // floor(q/c)
    let mut out = Outcome {
        sig: None,
        violation: None,
        requests: 0,
        seconds: 0,
    };
    // admissions per 500 ms bucket
    let mut adm: BTreeMap<u64, u64> = BTreeMap::new();
    let mut try_one = |adm: &mut BTreeMap<u64, u64>, requests: &mut u64| -> bool {
        *requests += 1;
        match EntryBuilder::new(res.clone()).build() {
            Ok(e) => {
                e.exit();
                let t = VClock::now_ms();
                *adm.entry(t - t % 500).or_insert(0) += 1;
                true
            }
            Err(_) => false,
        }
    };
    let allowance = || -> f64 {
        let calc = tc.get_calculator().lock().unwrap();
        calc.calculate_allowed_threshold(1, 0)
    };
    let (mut reached_q, mut recooled, mut low_ok) = (false, false, false);
    let mut sat_since_cold: Option<u64> = Some(0); // seconds of saturating demand since known-cold
    let mut t = case.t0;
    let mut prev_phase_idle_ge_2p = false;
    let mut first_phase = true;
    'phases: for (pi, ph) in case.phases.iter().enumerate() {
        match ph {
            Phase::Idle(n) => {
                t += n * 1000;
                VClock::set_ms(t);
                prev_phase_idle_ge_2p = *n >= 2 * case.p as u64;
                sat_since_cold = if prev_phase_idle_ge_2p { Some(0) } else { None };
                first_phase = false;
                continue;
            }
            Phase::Saturate(n) | Phase::AtAllowance(n) | Phase::Low(_, n) => {
                let mut prev_allow: Option<f64> = None;
                for sec in 0..*n {
                    out.seconds += 1;
                    let sec_start = t;
                    let mut admitted_this_second = 0u64;
                    let mut allow_this_second: Option<f64> = None;
                    let mut offered_low = 0u64;
                    let mut tick = case.tick_off;
                    while tick < 1000 {
                        VClock::set_ms(sec_start + tick);
                        match ph {
                            Phase::Saturate(_) => {
                                // keep asking until refused
                                let mut guard = 0;
                                loop {
                                    let ok = try_one(&mut adm, &mut out.requests);
                                    if allow_this_second.is_none() {
                                        allow_this_second = Some(allowance());
                                    }
                                    if !ok {
                                        break;
                                    }
                                    admitted_this_second += 1;
                                    guard += 1;
                                    if guard > 2 * q + 10 {
                                        break;
                                    }
                                }
                            }
                            Phase::AtAllowance(_) => {
                                if tick == case.tick_off {
                                    let ok = try_one(&mut adm, &mut out.requests);
                                    let a = allowance();
                                    allow_this_second = Some(a);
                                    if ok {
                                        admitted_this_second += 1;
                                    }
                                    let more = (a.floor() as u64).saturating_sub(1);
                                    for k in 0..more {
                                        if try_one(&mut adm, &mut out.requests) {
                                            admitted_this_second += 1;
                                        } else {
                                            out.violation = Some((
                                                "at-allowance/request-within-allowance-rejected".into(),
                                                format!("phase {pi} second {sec}: allowance {a}, request #{} of this second rejected", k + 2),
                                            ));
                                            break 'phases;
                                        }
                                    }
                                }
                            }
                            Phase::Low(k, _) => {
                                // k requests spread over the second
                                let due = (*k * (tick + case.grid) / 1000).min(*k);
                                while offered_low < due {
                                    offered_low += 1;
                                    let ok = try_one(&mut adm, &mut out.requests);
                                    if allow_this_second.is_none() {
                                        allow_this_second = Some(allowance());
                                    }
                                    if ok {
                                        admitted_this_second += 1;
                                    } else {
                                        out.violation = Some((
                                            "low-demand/rejected-below-cold-rate".into(),
                                            format!("phase {pi} second {sec}: demand {k}/s < q/c = {cold}, but a request was rejected"),
                                        ));
                                        break 'phases;
                                    }
                                }
                                low_ok = true;
                            }
                            Phase::Idle(_) => unreachable!(),
                        }
                        tick += case.grid;
                    }
                    t = sec_start + 1000;
                    let a = allow_this_second.unwrap_or(f64::NAN);
                    // ---- per-second assertions
                    if a > q as f64 + 1e-6 {
                        out.violation = Some(("allowance/above-threshold".into(), format!("allowance {a} > q {q}")));
                        break 'phases;
                    }
                    if a < cold as f64 - 1.0 {
                        out.violation = Some(("allowance/below-cold-rate".into(), format!("phase {pi} second {sec}: allowance {a} < q/c - 1 = {}", cold as f64 - 1.0)));
                        break 'phases;
                    }
                    if matches!(ph, Phase::Saturate(_)) {
                        if admitted_this_second + 1 < cold {
                            out.violation = Some((
                                "saturating/admits-less-than-cold-rate".into(),
                                format!("phase {pi} second {sec}: admitted {admitted_this_second} < floor(q/c) - 1 = {}", cold - 1),
                            ));
                            break 'phases;
                        }
                        // cold start (very first second, or first second after an idle gap >= 2p)
                        let is_cold_second = sec == 0 && ((first_phase && pi == 0) || prev_phase_idle_ge_2p);
                        if is_cold_second {
                            if (a - cold as f64).abs() > 1.0 + 1e-6 || admitted_this_second + 1 < cold || admitted_this_second > cold + 1 {
                                out.violation = Some((
                                    format!("cold/{}", if pi == 0 { "initial-not-at-cold-rate" } else { "not-cold-again-after-idle" }),
                                    format!("phase {pi} ({:?}): first second admitted {admitted_this_second}, allowance {a}; expected about q/c = {cold}", case.phases.get(pi.wrapping_sub(1))),
                                ));
                                break 'phases;
                            }
                            if pi > 0 {
                                recooled = true;
                            }
                        }
                        if let Some(pa) = prev_allow {
                            if a + 1e-6 < pa {
                                out.violation = Some((
                                    "saturating/allowance-decreased".into(),
                                    format!("phase {pi} second {sec}: allowance fell from {pa} to {a} under saturating demand"),
                                ));
                                break 'phases;
                            }
                        }
                        if let Some(s) = sat_since_cold.as_mut() {
                            *s += 1;
                            if *s > 2 * case.p as u64 + 2 && (a - q as f64).abs() > 1e-6 {
                                out.violation = Some((
                                    "saturating/threshold-not-reached-in-time".into(),
                                    format!("after {s} saturating seconds from cold the allowance is {a}, q = {q}, 2p+2 = {}", 2 * case.p + 2),
                                ));
                                break 'phases;
                            }
                        }
                        if (a - q as f64).abs() < 1e-6 {
                            reached_q = true;
                        }
                        prev_allow = Some(a);
                    } else {
                        // non-saturating seconds say nothing about the ramp duration
                        sat_since_cold = None;
                    }
                }
                prev_phase_idle_ge_2p = false;
                first_phase = false;
            }
        }
    }
    // never more than q in any bucket-aligned statistic interval (two consecutive 500 ms buckets)
    if out.violation.is_none() {
        for (b, n) in &adm {
            let w = n + adm.get(&(b + 500)).copied().unwrap_or(0);
            if w > q {
                out.violation = Some((
                    "window/admitted-more-than-threshold".into(),
                    format!("{w} admissions in the 1 s window starting at +{} ms, q = {q}", b - (case.t0 - case.t0 % 500)),
                ));
                break;
            }
        }
    }
    let _ = flow::load_rules_of_resource(&res, vec![]);
    if reached_q || recooled || low_ok {
        out.sig = Some(format!(
            "q{}|c{}|p{}|g{}|{}|reach{}|recool{}",
            match q { 0..=64 => "s", 65..=150 => "m", _ => "l" },
            case.c,
            case.p,
            case.grid,
            case.phases.iter().map(|p| match p { Phase::Saturate(_) => "S", Phase::AtAllowance(_) => "A", Phase::Low(..) => "L", Phase::Idle(_) => "I" }).collect::<String>(),
            reached_q as u8,
            recooled as u8
        ));
    }
    out
}

fn main() {
    let opts = Opts::parse();
    common::install_panic_capture();
    let mut rep = Report::new("C08", &opts);
    VClock::install(T0_MS);
    let mut rng = opts.rng();
    let thorough = opts.thorough();
    let ncases = if thorough { 3_000 } else { 250 };
    let mut base = T0_MS + 1_000_000_000 * (1 + opts.shard);
    for i in 0..ncases {
        if rep.over_budget() {
            break;
        }
        base += 2_000_000;
        base -= base % 1000;
        let case = gen_case(&mut rng, base, thorough);
        let r = common::catch(|| run_case(&case));
        match r {
            Ok(o) => {
                rep.count("requests", o.requests);
                rep.count("seconds_of_traffic", o.seconds);
                rep.case(o.sig.clone(), || case.to_json());
                if let Some((sig, detail)) = o.violation {
                    rep.violation(&sig, detail, case.to_json());
                }
            }
            Err(p) => {
                rep.case(None, || Value::Null);
                rep.violation(&format!("panic/{}", common::panic_site(&p)), p, case.to_json());
            }
        }
        if i % 100 == 99 {
            sentinel_core::stat::reset_resource_map();
        }
    }
    rep.finish()
}
