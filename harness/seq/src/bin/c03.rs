//! C03 — circuit breakers follow the Closed / Open / Half-Open state machine.
//!
//! Monitor: generated (and, to a bounded depth, exhaustively enumerated) sequences
//! of {enter, complete ok/error of an open entry, advance time} on the real global
//! slot chain under the virtual clock; after every operation the decision, the
//! state of every breaker and the listener notifications are compared with an
//! executable model of the documented machine.

use common::models::{BEvent, BState, BStrategy, BreakerModel, BreakerSpec, WindowLog};
use common::{fresh_name, Opts, Report, Rng, T0_MS};
use sentinel_core::base::EntryStrongPtr;
use sentinel_core::{circuitbreaker as cb, flow, EntryBuilder};
use seq::*;
use serde_json::{json, Value};
use std::sync::Arc;

#[derive(Clone, Debug)]
enum Op {
    Enter,
    /// complete the open entry `idx % len` (no-op when nothing is open)
    Complete(usize, bool),
    Adv(u64),
}

#[derive(Clone, Debug)]
struct Case {
    breakers: Vec<BreakerSpec>,
    flow_threshold: Option<f64>,
    t0: u64,
    ops: Vec<Op>,
}

impl Case {
    fn to_json(&self) -> Value {
        json!({
            "breakers": self.breakers.iter().map(spec_json).collect::<Vec<_>>(),
            "flow_threshold": self.flow_threshold,
            "t0": self.t0,
            "ops": self.ops.iter().map(|o| match o {
                Op::Enter => json!(["enter"]),
                Op::Complete(i, e) => json!(["complete", i, e]),
                Op::Adv(ms) => json!(["adv", ms]),
            }).collect::<Vec<_>>(),
        })
    }
    fn from_json(v: &Value) -> Case {
        Case {
            breakers: v["breakers"].as_array().unwrap().iter().map(spec_from_json).collect(),
            flow_threshold: v["flow_threshold"].as_f64(),
            t0: v["t0"].as_u64().unwrap(),
            ops: v["ops"]
                .as_array()
                .unwrap()
                .iter()
                .map(|o| match o[0].as_str().unwrap() {
                    "enter" => Op::Enter,
                    "complete" => Op::Complete(o[1].as_u64().unwrap() as usize, o[2].as_bool().unwrap()),
                    _ => Op::Adv(o[1].as_u64().unwrap()),
                })
                .collect(),
        }
    }
}

struct Outcome {
    sig: Option<String>,
    violation: Option<(String, String)>,
    ops: u64,
    transitions: u64,
}

fn run_case(case: &Case) -> Outcome {
    let res = fresh_name("c03");
    VClock::set_ms(case.t0);
    drain_breaker_events();
    let rules: Vec<Arc<cb::Rule>> = case.breakers.iter().map(|s| Arc::new(cb_rule(&res, s))).collect();
    cb::load_rules_of_resource(&res, rules.clone()).unwrap();
    let mut flowlog = WindowLog::new(500, 1000);
    if let Some(th) = case.flow_threshold {
        flow::load_rules_of_resource(
            &res,
            vec![Arc::new(flow::Rule {
                resource: res.clone(),
                threshold: th,
                ..Default::default()
            })],
        )
        .unwrap();
    }
    let mut out = Outcome {
        sig: None,
        violation: None,
        ops: 0,
        transitions: 0,
    };
    let real = cb::get_breakers_of_resource(&res);
    if real.len() != rules.len() {
        out.violation = Some((
            "setup/breakers-missing".into(),
            format!("{} valid rules, {} breakers", rules.len(), real.len()),
        ));
        return out;
    }
    // models in the order the slot consults the breakers
    let mut models: Vec<(String, BreakerModel)> = real
        .iter()
        .map(|b| {
            let id = b.bound_rule().id.clone();
            let k = rules.iter().position(|r| r.id == id).unwrap();
            (id, BreakerModel::new(case.breakers[k].clone()))
        })
        .collect();
    let mut open: Vec<(EntryStrongPtr, u64, u64)> = Vec::new();
    let mut seqno = 0u64;
    let mut probe_seq: Option<u64> = None;
    let mut seen_events: std::collections::BTreeSet<String> = Default::default();
    let mut stale_in_halfopen = false;
    let mut probe_rollback = false;
    let mut rejected_while_open = 0u32;
    let describe = |models: &Vec<(String, BreakerModel)>| {
        models
            .iter()
            .map(|m| format!("{:?}@retry{}", m.1.state, m.1.next_retry))
            .collect::<Vec<_>>()
            .join(",")
    };
    'ops: for (i, op) in case.ops.iter().enumerate() {
        out.ops += 1;
        let ev_before: Vec<usize> = models.iter().map(|m| m.1.events.len()).collect();
        match op {
            Op::Adv(ms) => VClock::advance_ms(*ms),
            Op::Enter => {
                let now = VClock::now_ms();
                let flow_fits = match case.flow_threshold {
                    Some(th) => flowlog.sum(now) as f64 + 1.0 <= th,
                    None => true,
                };
                let mut blocked_by_cb = false;
                let mut probes: Vec<usize> = Vec::new();
                for (k, m) in models.iter_mut().enumerate() {
                    let st = m.1.state;
                    let (pass, probe) = m.1.try_pass(now);
                    if probe {
                        probes.push(k);
                    }
                    if !pass {
                        blocked_by_cb = true;
                        if st == BState::Open {
                            rejected_while_open += 1;
                        }
                        break;
                    }
                }
                let expect_admit = flow_fits && !blocked_by_cb;
                if !expect_admit {
                    for k in &probes {
                        models[*k].1.probe_blocked();
                        probe_rollback = true;
                    }
                }
                let r = EntryBuilder::new(res.clone()).build();
                match r {
                    Ok(e) => {
                        if !expect_admit {
                            out.violation = Some((
                                format!(
                                    "decision/admitted-but-should-reject/{}",
                                    if blocked_by_cb { "breaker" } else { "flow" }
                                ),
                                format!("op#{i} t={now}: admitted; model: {}", describe(&models)),
                            ));
                            e.exit();
                            break 'ops;
                        }
                        flowlog.add(now, 1);
                        seqno += 1;
                        if !probes.is_empty() {
                            probe_seq = Some(seqno);
                        }
                        open.push((e, now, seqno));
                    }
                    Err(err) => {
                        let txt = err.to_string();
                        if expect_admit {
                            out.violation = Some((
                                "decision/rejected-but-should-admit".into(),
                                format!("op#{i} t={now}: rejected ({}); model: {}", &txt[..txt.len().min(160)], describe(&models)),
                            ));
                            break 'ops;
                        }
                        let want = if blocked_by_cb { "CircuitBreaking" } else { "Flow" };
                        if err_block_type(&txt).as_deref() != Some(want) {
                            out.violation = Some((
                                "report/block-type".into(),
                                format!("op#{i}: rejection reported as {:?}, expected {want}", err_block_type(&txt)),
                            ));
                            break 'ops;
                        }
                    }
                }
            }
            Op::Complete(idx, err) => {
                if open.is_empty() {
                    continue;
                }
                let pos = if *idx >= 1_000_000 { open.len() - 1 } else { *idx % open.len() };
                let (e, start, sq) = open.remove(pos);
                let now = VClock::now_ms();
                if *err {
                    e.set_err(sentinel_core::Error::msg("biz error"));
                }
                for m in models.iter_mut() {
                    if m.1.state == BState::HalfOpen && probe_seq != Some(sq) {
                        stale_in_halfopen = true;
                    }
                    m.1.complete(now, now - start, *err);
                }
                e.exit();
            }
        }
        // ---- compare after every operation
        let real_now = cb::get_breakers_of_resource(&res);
        for (k, (id, m)) in models.iter().enumerate() {
            let rs = to_bstate(real_now[k].current_state());
            if real_now[k].bound_rule().id != *id {
                out.violation = Some(("setup/breaker-order-changed".into(), String::new()));
                break 'ops;
            }
            if rs != m.state {
                out.violation = Some((
                    format!("state/{:?}-expected-{:?}/{:?}", rs, m.state, m.spec.strategy),
                    format!("after op#{i} {:?} at t={}: breaker {k} is {:?}, machine says {:?} (next_retry {}), counters {:?}", op, VClock::now_ms(), rs, m.state, m.next_retry, m.buckets),
                ));
                break 'ops;
            }
        }
        let got = drain_breaker_events();
        for (k, (id, m)) in models.iter().enumerate() {
            let want: Vec<BEvent> = m.events[ev_before[k]..].to_vec();
            let have: Vec<BEvent> = got.iter().filter(|(rid, _)| rid == id).map(|x| x.1).collect();
            if want != have {
                out.violation = Some((
                    format!(
                        "listener/{}",
                        if have.len() < want.len() { "missing-notification" } else if have.len() > want.len() { "extra-notification" } else { "wrong-notification" }
                    ),
                    format!("after op#{i} {:?}: breaker {k} notified {have:?}, machine expects {want:?}", op),
                ));
                break 'ops;
            }
            out.transitions += want.len() as u64;
            for e in &want {
                seen_events.insert(format!("{e:?}"));
            }
        }
    }
    for (e, _, _) in open {
        e.exit();
    }
    cb::clear_rules_of_resource(&res);
    if case.flow_threshold.is_some() {
        let _ = flow::load_rules_of_resource(&res, vec![]);
    }
    drain_breaker_events();
    // non-trivial: at least Closed->Open and Open->HalfOpen and one probe verdict
    let full_cycle = seen_events.contains("ToOpen(Closed)")
        && seen_events.contains("ToHalfOpen(Open)")
        && (seen_events.contains("ToClosed(HalfOpen)") || seen_events.contains("ToOpen(HalfOpen)"));
    if full_cycle {
        let s0 = &case.breakers[0];
        out.sig = Some(format!(
            "{:?}|min{}|b{}|{}|n{}|flow{}|ev{}|stale{}|rollback{}|rejopen{}",
            s0.strategy,
            s0.min_request_amount,
            s0.buckets(),
            if s0.retry_timeout_ms < s0.stat_interval_ms { "retry<win" } else if s0.retry_timeout_ms == s0.stat_interval_ms { "retry=win" } else { "retry>win" },
            case.breakers.len(),
            case.flow_threshold.is_some() as u8,
            seen_events.len(),
            stale_in_halfopen as u8,
            probe_rollback as u8,
            (rejected_while_open > 0) as u8,
        ));
    }
    out
}

fn gen_spec(rng: &mut Rng) -> BreakerSpec {
    let strategy = *rng.pick(&[BStrategy::SlowRatio, BStrategy::ErrorRatio, BStrategy::ErrorCount]);
    let (interval, buckets) = *rng.pick(&[(1000u64, 1u64), (1000, 2), (1000, 4), (600, 3), (2000, 1), (500, 5), (1000, 3), (1000, 0)]);
    let retry = *rng.pick(&[100u64, 300, 1000, 1500, 3000, interval, interval / 2]);
    let min = rng.range(0, 4);
    let threshold = match strategy {
        BStrategy::ErrorCount => *rng.pick(&[0.0, 1.0, 2.0, 3.0, 5.0]),
        _ => *rng.pick(&[0.0, 0.2, 0.25, 1.0 / 3.0, 0.5, 0.51, 0.75, 1.0]),
    };
    BreakerSpec {
        strategy,
        retry_timeout_ms: retry,
        min_request_amount: min,
        stat_interval_ms: interval,
        bucket_count: buckets,
        max_allowed_rt_ms: *rng.pick(&[0u64, 5, 20, 100]),
        threshold,
    }
}

fn gen_case(rng: &mut Rng, base: u64, long: bool) -> Case {
    let nb = if rng.chance(1, 3) { 2 } else { 1 };
    let mut breakers: Vec<BreakerSpec> = (0..nb).map(|_| gen_spec(rng)).collect();
    // two rules that are equal under the library's rule equality are one rule (a rule set is a set,
    // see C10): generate two *different* breakers
    while breakers.len() == 2 && cb_rule("x", &breakers[0]) == cb_rule("x", &breakers[1]) {
        breakers[1] = gen_spec(rng);
    }
    let flow_threshold = if rng.chance(1, 4) { Some(*rng.pick(&[1.0, 2.0, 4.0])) } else { None };
    let len = if long { 20 + rng.below(60) } else { 8 + rng.below(40) } as usize;
    let s0 = breakers[0].clone();
    let advs = [
        1u64,
        1,
        5,
        21,
        101,
        s0.bl(),
        s0.stat_interval_ms / 2,
        s0.stat_interval_ms,
        s0.retry_timeout_ms,
        s0.retry_timeout_ms.saturating_sub(1),
        s0.retry_timeout_ms + 1,
    ];
    let mut ops = Vec::with_capacity(len);
    for _ in 0..len {
        let k = rng.below(10);
        ops.push(if k < 4 {
            Op::Enter
        } else if k < 8 {
            Op::Complete(rng.below(8) as usize, rng.chance(1, 2))
        } else {
            Op::Adv(*rng.pick(&advs))
        });
    }
    Case {
        breakers,
        flow_threshold,
        t0: base + rng.below(1000),
        ops,
    }
}

/// rule sets for the exhaustive part (small so that depth 5-6 is reachable)
fn exhaustive_specs() -> Vec<BreakerSpec> {
    let mk = |strategy, min, buckets, retry, threshold, max_rt| BreakerSpec {
        strategy,
        retry_timeout_ms: retry,
        min_request_amount: min,
        stat_interval_ms: 1000,
        bucket_count: buckets,
        max_allowed_rt_ms: max_rt,
        threshold,
    };
    vec![
        mk(BStrategy::ErrorCount, 1, 1, 300, 1.0, 0),
        mk(BStrategy::ErrorCount, 2, 2, 1500, 2.0, 0),
        mk(BStrategy::ErrorRatio, 2, 2, 300, 0.5, 0),
        mk(BStrategy::ErrorRatio, 0, 1, 1000, 1.0, 0),
        mk(BStrategy::SlowRatio, 1, 2, 300, 0.5, 5),
        mk(BStrategy::SlowRatio, 2, 1, 1500, 1.0, 0),
    ]
}

fn alphabet(s: &BreakerSpec) -> Vec<Op> {
    vec![
        Op::Enter,
        Op::Complete(0, false),
        Op::Complete(0, true),
        Op::Complete(1_000_000, false), // newest
        Op::Complete(1_000_000, true),
        Op::Adv(6),
        Op::Adv(s.stat_interval_ms / 2),
        Op::Adv(s.stat_interval_ms),
        Op::Adv(s.retry_timeout_ms),
    ]
}

fn handle(rep: &mut Report, case: &Case, r: Result<Outcome, String>) {
    match r {
        Ok(o) => {
            rep.count("operations", o.ops);
            rep.count("transitions_checked", o.transitions);
            rep.case(o.sig.clone(), || case.to_json());
            if let Some((sig, detail)) = o.violation {
                rep.violation(&sig, detail, case.to_json());
            }
        }
        Err(p) => {
            rep.case(None, || Value::Null);
            rep.violation(&format!("panic/{}", common::panic_site(&p)), p, case.to_json());
        }
    }
}

fn main() {
    let opts = Opts::parse();
    common::install_panic_capture();
    let mut rep = Report::new("C03", &opts);
    VClock::install(T0_MS);
    install_breaker_listener();

    if let Some(path) = &opts.replay {
        let v: Value = serde_json::from_str(&std::fs::read_to_string(path).unwrap()).unwrap();
        let case = Case::from_json(&v["case"]);
        let r = common::catch(|| run_case(&case));
        handle(&mut rep, &case, r);
        rep.finish();
    }

    let mut rng = opts.rng();
    let thorough = opts.thorough();
    let mut base = T0_MS + 10_000_000 * (1 + opts.shard);

    // ---- exhaustive part: all sequences over the alphabet up to depth d,
    // split over shards by the first operation(s)
    let depth = if thorough { 7 } else { 6 };
    let specs = exhaustive_specs();
    let mut exhaustive_cases = 0u64;
    for (si, spec) in specs.iter().enumerate() {
        let alpha = alphabet(spec);
        let a = alpha.len() as u64;
        let total = a.pow(depth);
        for code in 0..total {
            if code % opts.nshards != opts.shard {
                continue;
            }
            let mut c = code;
            let mut ops = Vec::with_capacity(depth as usize);
            let mut open = 0i32;
            let mut useless = false;
            for _ in 0..depth {
                let op = alpha[(c % a) as usize].clone();
                c /= a;
                match op {
                    Op::Enter => open += 1, // upper bound (may be rejected)
                    Op::Complete(_, _) => {
                        if open <= 0 {
                            useless = true; // completing nothing: same as a shorter sequence
                            break;
                        }
                        open -= 1;
                    }
                    _ => {}
                }
                ops.push(op);
            }
            if useless {
                continue;
            }
            base += 20_000;
            let case = Case {
                breakers: vec![spec.clone()],
                flow_threshold: None,
                t0: base + (si as u64 * 137) % 1000,
                ops,
            };
            let r = common::catch(|| run_case(&case));
            handle(&mut rep, &case, r);
            exhaustive_cases += 1;
            if exhaustive_cases % 2000 == 0 {
                sentinel_core::stat::reset_resource_map();
            }
        }
    }
    rep.extra.insert("exhaustive_sequences".into(), json!(exhaustive_cases));
    rep.extra.insert("exhaustive_depth".into(), json!(depth));

    // ---- random part
    let ncases = if thorough { 150_000 } else { 15_000 };
    for i in 0..ncases {
        if rep.over_budget() {
            break;
        }
        base += 200_000;
        let case = gen_case(&mut rng, base, thorough);
        let r = common::catch(|| run_case(&case));
        handle(&mut rep, &case, r);
        if i % 500 == 499 {
            sentinel_core::stat::reset_resource_map();
        }
    }
    rep.finish()
}
