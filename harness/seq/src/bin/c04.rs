//! C04 — every entry is accounted exactly once: pass xor block, completion, in-flight.
//!
//! Monitor: a ledger kept at the client boundary (what build() returned, when
//! exit() was called) is compared after every operation with what the statistic
//! nodes report (default window and a 10 s window, plus the global inbound node).

use common::{fresh_name, Opts, Report, Rng, T0_MS};
use sentinel_core::base::{
    ConcurrencyStat, EntryStrongPtr, MetricEvent, ReadStat, StatNode, TrafficType,
};
use sentinel_core::{circuitbreaker as cb, flow, isolation, stat, EntryBuilder};
use seq::*;
use serde_json::{json, Value};
use std::sync::Arc;

const PASS: usize = 0;
const BLOCK: usize = 1;
const COMPLETE: usize = 2;
const RT: usize = 3;
const EVS: [MetricEvent; 4] = [
    MetricEvent::Pass,
    MetricEvent::Block,
    MetricEvent::Complete,
    MetricEvent::Rt,
];

#[derive(Default, Clone)]
struct Ledger {
    /// (time, kind, amount)
    events: Vec<(u64, usize, u64)>,
    in_flight: u32,
}

impl Ledger {
    fn add(&mut self, t: u64, kind: usize, n: u64) {
        self.events.push((t, kind, n));
    }
    /// events whose 500 ms bucket lies in the `w` ms window ending in the bucket of t
    fn sum(&self, t: u64, w: u64, kind: usize) -> u64 {
        let hi = t - t % 500;
        let lo = (hi + 500).saturating_sub(w);
        let mut s = 0;
        for &(te, k, n) in self.events.iter().rev() {
            let b = te - te % 500;
            if b < lo {
                break;
            }
            if k == kind && b <= hi {
                s += n;
            }
        }
        s
    }
    fn prune(&mut self, t: u64) {
        if self.events.len() > 4096 {
            let lo = (t - t % 500).saturating_sub(12_000);
            self.events.retain(|e| e.0 >= lo);
        }
    }
}

#[derive(Clone, Debug)]
enum Op {
    /// resource index, inbound?, batch, resource type (0..6)
    Enter(usize, bool, u32, u8),
    /// exit open entry idx % len, with error flag
    Exit(usize, bool),
    Adv(u64),
}

#[derive(Clone, Debug)]
struct Case {
    nres: usize,
    /// per resource: isolation threshold, flow threshold, breaker error-count threshold
    iso: Vec<Option<u32>>,
    flow: Vec<Option<f64>>,
    brk: Vec<Option<u32>>,
    /// per resource: a throttling flow rule (rate per second, max queueing ms): build() may hold the caller
    /// (virtual sleep) before it returns; a queued-then-admitted entry is a passed entry like any other
    thr: Vec<Option<(f64, u32)>>,
    t0: u64,
    ops: Vec<Op>,
}

impl Case {
    fn to_json(&self) -> Value {
        json!({"nres": self.nres, "iso": self.iso, "flow": self.flow, "brk": self.brk, "throttling": self.thr, "t0": self.t0,
            "ops": self.ops.iter().map(|o| match o {
                Op::Enter(r, i, b, ty) => json!(["enter", r, i, b, ty]),
                Op::Exit(i, e) => json!(["exit", i, e]),
                Op::Adv(ms) => json!(["adv", ms]),
            }).collect::<Vec<_>>()})
    }
}

fn gen_case(rng: &mut Rng, base: u64, long: bool) -> Case {
    let nres = rng.range(2, 4) as usize;
    let mut iso = vec![];
    let mut fl = vec![];
    let mut brk = vec![];
    let mut thr = vec![];
    for _ in 0..nres {
        thr.push(if rng.chance(1, 5) { Some((*rng.pick(&[2.0, 10.0, 50.0]), *rng.pick(&[0u32, 50, 500, 2000]))) } else { None });
        iso.push(if rng.chance(1, 3) { Some(rng.range(1, 4) as u32) } else { None });
        fl.push(if rng.chance(1, 3) { Some(*rng.pick(&[0.0, 1.0, 3.0, 6.5])) } else { None });
        brk.push(if rng.chance(1, 5) { Some(rng.range(1, 2) as u32) } else { None });
    }
    let len = if long { 30 + rng.below(120) } else { 10 + rng.below(50) } as usize;
    let mut ops = vec![];
    for _ in 0..len {
        let k = rng.below(10);
        ops.push(if k < 5 {
            Op::Enter(
                rng.below(nres as u64) as usize,
                rng.chance(1, 2),
                *rng.pick(&[1u32, 1, 1, 2, 3, 7]),
                // mostly one type per case, sometimes another type on the same name
                *rng.pick(&[0u8, 0, 0, 0, 0, 1, 2, 6]),
            )
        } else if k < 8 {
            Op::Exit(rng.below(16) as usize, rng.chance(1, 3))
        } else {
            Op::Adv(*rng.pick(&[0u64, 1, 7, 100, 499, 500, 501, 999, 1000, 1001, 2500, 9_999, 10_000, 12_345, 59_999, 60_001, 130_000]))
        });
    }
    Case {
        nres,
        iso,
        flow: fl,
        brk,
        thr,
        t0: base + rng.below(2000),
        ops,
    }
}

struct Outcome {
    sig: Option<String>,
    violation: Option<(String, String)>,
    checks: u64,
}

fn compare(
    name: &str,
    node: &dyn StatNode,
    wide: &dyn ReadStat,
    led: &Ledger,
    now: u64,
    checks: &mut u64,
) -> Option<(String, String)> {
    if node.current_concurrency() != led.in_flight {
        return Some((
            format!("{name}/in-flight"),
            format!("current_concurrency = {}, un-exited admitted entries = {}", node.current_concurrency(), led.in_flight),
        ));
    }
    for (label, st, w) in [("1s", node as &dyn ReadStat, 1000u64), ("10s", wide, 10_000u64)] {
        for (k, ev) in EVS.iter().enumerate() {
            let want = led.sum(now, w, k);
            let got = st.sum(*ev);
            *checks += 1;
            if got != want {
                return Some((
                    format!("{name}/{label}/sum-{:?}/{}", ev, if got > want { "excess" } else { "loss" }),
                    format!("sum({ev:?}) over {label} at t={now}: node says {got}, ledger says {want}"),
                ));
            }
            let q = st.qps(*ev);
            let wq = want as f64 / (w as f64 / 1000.0);
            if (q - wq).abs() > 1e-9 * (1.0 + wq.abs()) {
                return Some((format!("{name}/{label}/qps-{:?}", ev), format!("qps {q} expected {wq}")));
            }
        }
        let comp = led.sum(now, w, COMPLETE);
        let want_avg = if comp == 0 { 0.0 } else { led.sum(now, w, RT) as f64 / comp as f64 };
        let a = st.avg_rt();
        if (a - want_avg).abs() > 1e-9 * (1.0 + want_avg.abs()) {
            return Some((format!("{name}/{label}/avg_rt"), format!("avg_rt {a} expected {want_avg}")));
        }
    }
    None
}

fn run_case(case: &Case, inbound: &mut Ledger) -> Outcome {
    let names: Vec<String> = (0..case.nres).map(|_| fresh_name("c04")).collect();
    VClock::set_ms(case.t0);
    for (i, n) in names.iter().enumerate() {
        if let Some(t) = case.iso[i] {
            isolation::load_rules_of_resource(
                n,
                vec![Arc::new(isolation::Rule {
                    resource: n.clone(),
                    threshold: t,
                    ..Default::default()
                })],
            )
            .unwrap();
        }
        let mut frules = vec![];
        if let Some(t) = case.flow[i] {
            frules.push(Arc::new(flow::Rule { resource: n.clone(), threshold: t, ..Default::default() }));
        }
        if let Some((rate, maxq)) = case.thr[i] {
            frules.push(Arc::new(flow::Rule {
                resource: n.clone(),
                threshold: rate,
                control_strategy: flow::ControlStrategy::Throttling,
                max_queueing_time_ms: maxq,
                ..Default::default()
            }));
        }
        if !frules.is_empty() {
            flow::load_rules_of_resource(n, frules).unwrap();
        }
        if let Some(t) = case.brk[i] {
            cb::load_rules_of_resource(
                n,
                vec![Arc::new(cb::Rule {
                    resource: n.clone(),
                    strategy: cb::BreakerStrategy::ErrorCount,
                    retry_timeout_ms: 700,
                    min_request_amount: 1,
                    stat_interval_ms: 1000,
                    threshold: t as f64,
                    ..Default::default()
                })],
            )
            .unwrap();
        }
    }
    let mut ledgers: Vec<Ledger> = vec![Ledger::default(); case.nres];
    let mut open: Vec<(EntryStrongPtr, usize, bool, u32, u64)> = Vec::new();
    let mut out = Outcome {
        sig: None,
        violation: None,
        checks: 0,
    };
    let inbound_node = stat::inbound_node();
    let inbound_wide = inbound_node.generate_read_stat(20, 10_000).unwrap();
    let (mut n_block, mut n_pass, mut n_in, mut n_out, mut n_batch, mut rolled) = (0u32, 0u32, 0u32, 0u32, 0u32, false);
    let mut first_event: Option<u64> = None;
    let mut n_types = 0u32;
    'ops: for (i, op) in case.ops.iter().enumerate() {
        let now_before = VClock::now_ms();
        match op {
            Op::Adv(ms) => VClock::advance_ms(*ms),
            Op::Enter(r, inb, batch, ty) => {
                let now = now_before;
                if *ty != 0 {
                    n_types += 1;
                }
                let res = EntryBuilder::new(names[*r].clone())
                    .with_resource_type(sentinel_core::base::ResourceType::from(*ty))
                    .with_traffic_type(if *inb { TrafficType::Inbound } else { TrafficType::Outbound })
                    .with_batch_count(*batch)
                    .build();
                // a throttling rule may have held the caller (virtual sleep): the statistic slots ran after that
                let now = VClock::now_ms();
                let started = now_before;
                first_event.get_or_insert(now);
                if *inb { n_in += 1 } else { n_out += 1 }
                if *batch > 1 {
                    n_batch += 1;
                }
                match res {
                    Ok(e) => {
                        n_pass += 1;
                        ledgers[*r].add(now, PASS, *batch as u64);
                        ledgers[*r].in_flight += 1;
                        if *inb {
                            inbound.add(now, PASS, *batch as u64);
                            inbound.in_flight += 1;
                        }
                        open.push((e, *r, *inb, *batch, started));
                    }
                    Err(_) => {
                        n_block += 1;
                        ledgers[*r].add(now, BLOCK, *batch as u64);
                        if *inb {
                            inbound.add(now, BLOCK, *batch as u64);
                        }
                    }
                }
            }
            Op::Exit(k, err) => {
                if open.is_empty() {
                    continue;
                }
                let (e, r, inb, batch, start) = open.remove(*k % open.len());
                let now = now_before;
                if *err {
                    e.set_err(sentinel_core::Error::msg("biz"));
                }
                e.exit();
                ledgers[r].add(now, COMPLETE, batch as u64);
                ledgers[r].add(now, RT, now - start);
                ledgers[r].in_flight -= 1;
                if inb {
                    inbound.add(now, COMPLETE, batch as u64);
                    inbound.add(now, RT, now - start);
                    inbound.in_flight -= 1;
                }
            }
        }
        let now = VClock::now_ms();
        if let Some(f) = first_event {
            if now - f > 1500 {
                rolled = true;
            }
        }
        for (r, n) in names.iter().enumerate() {
            match stat::get_resource_node(n) {
                Some(node) => {
                    let wide = node.generate_read_stat(20, 10_000).unwrap();
                    if let Some(v) = compare("resource", node.as_ref(), wide.as_ref(), &ledgers[r], now, &mut out.checks) {
                        out.violation = Some((v.0, format!("after op#{i} {op:?}: {}", v.1)));
                        break 'ops;
                    }
                }
                None => {
                    if !ledgers[r].events.is_empty() {
                        out.violation = Some(("resource/node-missing".into(), format!("no node for {n} after {} events", ledgers[r].events.len())));
                        break 'ops;
                    }
                }
            }
        }
        if let Some(v) = compare("inbound", inbound_node.as_ref(), inbound_wide.as_ref(), inbound, now, &mut out.checks) {
            out.violation = Some((v.0, format!("after op#{i} {op:?}: {}", v.1)));
            break 'ops;
        }
    }
    // leave nothing in flight: the inbound node is shared by all later cases
    let now = VClock::now_ms();
    for (e, r, inb, batch, start) in open {
        e.exit();
        ledgers[r].in_flight -= 1;
        if inb {
            inbound.add(now, COMPLETE, batch as u64);
            inbound.add(now, RT, now - start);
            inbound.in_flight -= 1;
        }
    }
    for n in &names {
        let _ = isolation::load_rules_of_resource(n, vec![]);
        let _ = flow::load_rules_of_resource(n, vec![]);
        cb::clear_rules_of_resource(n);
    }
    inbound.prune(now);
    if n_block > 0 && n_pass > 0 && rolled {
        out.sig = Some(format!(
            "n{}|iso{}|flow{}|brk{}|in{}|out{}|batch{}|blk{}|types{}",
            case.nres,
            case.iso.iter().flatten().count(),
            case.flow.iter().flatten().count(),
            case.brk.iter().flatten().count(),
            (n_in > 0) as u8,
            (n_out > 0) as u8,
            (n_batch > 0) as u8,
            match n_block { 1 => 1, 2..=4 => 2, _ => 3 },
            (n_types > 0) as u8,
        ));
    }
    out
}

fn empty_name_probe(inbound: &mut Ledger) -> Result<(), (String, String)> {
    let now = VClock::now_ms();
    let inbound_node = stat::inbound_node();
    let wide_in = inbound_node.generate_read_stat(20, 10_000).unwrap();
    let blocks_before = wide_in.sum(MetricEvent::Block);
    let name = String::new();
    match EntryBuilder::new(name.clone()).with_traffic_type(TrafficType::Inbound).with_batch_count(2).build() {
        Ok(e) => {
            let node = stat::get_resource_node(&name).ok_or(("empty-name/admitted-but-no-node".to_string(), "build() returned an entry for \"\" but no statistics node exists".to_string()))?;
            let wide = node.generate_read_stat(20, 10_000).unwrap();
            if wide.sum(MetricEvent::Pass) != 2 || node.current_concurrency() != 1 {
                return Err(("empty-name/admitted-but-not-accounted".into(), format!("pass {} (want 2), in-flight {} (want 1)", wide.sum(MetricEvent::Pass), node.current_concurrency())));
            }
            inbound.add(now, PASS, 2);
            inbound.in_flight += 1;
            VClock::advance_ms(7);
            e.exit();
            inbound.add(now + 7, COMPLETE, 2);
            inbound.add(now + 7, RT, 7);
            inbound.in_flight -= 1;
            if wide.sum(MetricEvent::Complete) != 2 || wide.sum(MetricEvent::Rt) != 7 || node.current_concurrency() != 0 {
                return Err(("empty-name/exit-not-accounted".into(), format!("complete {} (want 2), rt {} (want 7), in-flight {}", wide.sum(MetricEvent::Complete), wide.sum(MetricEvent::Rt), node.current_concurrency())));
            }
        }
        Err(_) => {
            if let Some(node) = stat::get_resource_node(&name) {
                let wide = node.generate_read_stat(20, 10_000).unwrap();
                if wide.sum(MetricEvent::Pass) != 0 || node.current_concurrency() != 0 {
                    return Err(("empty-name/refused-but-recorded-as-passed".into(), format!("pass {}, in-flight {}", wide.sum(MetricEvent::Pass), node.current_concurrency())));
                }
            }
            if wide_in.sum(MetricEvent::Block) == blocks_before + 2 {
                inbound.add(now, BLOCK, 2);
            }
        }
    }
    let mut checks = 0;
    if let Some(v) = compare("inbound", inbound_node.as_ref(), wide_in.as_ref(), inbound, VClock::now_ms(), &mut checks) {
        return Err((format!("empty-name/{}", v.0), v.1));
    }
    Ok(())
}

fn main() {
    let opts = Opts::parse();
    common::install_panic_capture();
    let mut rep = Report::new("C04", &opts);
    VClock::install(T0_MS);
    let mut rng = opts.rng();
    let thorough = opts.thorough();
    let ncases = if thorough { 100_000 } else { 10_000 };
    let mut base = T0_MS + 50_000_000 * (1 + opts.shard);
    let mut inbound = Ledger::default();
    for i in 0..ncases {
        if rep.over_budget() {
            break;
        }
        // once per shard: more distinct resources than the documented soft cap (10 000) exist while the next
        // ~280 cases run; the cap only warns, entries on late resources are accounted like all others
        if i == 12 {
            VClock::set_ms(base - 25_000);
            for k in 0..10_050u32 {
                if let Ok(e) = EntryBuilder::new(format!("c04-flood-{}-{k}", opts.shard)).with_traffic_type(TrafficType::Outbound).build() {
                    e.exit();
                }
            }
            rep.count("resource_flood_nodes", 10_050);
        }
        let case = gen_case(&mut rng, base, thorough);
        let span: u64 = case.ops.iter().map(|o| if let Op::Adv(ms) = o { *ms } else { 0 }).sum();
        base += span + 30_000;
        let r = common::catch(|| run_case(&case, &mut inbound));
        match r {
            Ok(o) => {
                rep.count("comparisons", o.checks);
                rep.count("operations", case.ops.len() as u64);
                rep.case(o.sig.clone(), || case.to_json());
                if let Some((sig, detail)) = o.violation {
                    rep.violation(&sig, detail, case.to_json());
                    // the shared inbound ledger may now disagree for good: stop this shard
                    if sig.starts_with("inbound") {
                        rep.notes.push("stopped after an inbound-node violation".into());
                        break;
                    }
                }
            }
            Err(p) => {
                rep.case(None, || Value::Null);
                rep.violation(&format!("panic/{}", common::panic_site(&p)), p, case.to_json());
                break;
            }
        }
        if i % 300 == 299 {
            stat::reset_resource_map();
            // the unusual-but-legal resource name "": either it is accounted like any other resource, or the
            // entry is refused (C12 allows that for malformed calls) and nothing is recorded as passed
            VClock::set_ms(base - 20_000);
            rep.count("empty_name_probes", 1);
            if let Err(p) = common::catch(|| empty_name_probe(&mut inbound)).unwrap_or_else(|p| Err(("panic/empty-resource-name".to_string(), p))) {
                rep.violation(&p.0, p.1, serde_json::json!({"probe": "one inbound entry with batch 2 on the resource name \"\", exit after 7 ms", "t": base - 20_000}));
                break;
            }
            stat::reset_resource_map();
        }
    }
    rep.finish()
}
