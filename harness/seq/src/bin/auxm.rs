//! Auxiliary driver for the undefined-behaviour / data-race interpreter (Miri).
//!
//! Miri is four orders of magnitude slower than native code, so this is a tiny
//! tour of the code the behavioural monitors exercise at scale: ring arithmetic
//! (C02), the global slot chain with a flow rule (C01/C04), a circuit-breaker
//! cycle (C03), a custom slot chain (C13) and two threads entering a brand-new
//! resource (C14; Miri reports data races and deadlocks and explores weak-memory
//! behaviours of the atomics under -Zmiri-many-seeds). Each part asserts the
//! obvious outcome so that a miscompiled / misinterpreted run cannot pass
//! silently. It decides none of the properties: the driver records its outcome
//! under coverage.auxiliary_miri.
//!
//! Hotspot rules are left out on purpose: the pinned dependency lru 0.7.8 is
//! flagged by Miri's aliasing models (third-party code, see DESIGN §7).

use sentinel_core::base::{MetricEvent, ReadStat};
use sentinel_core::stat::verif_export::{BucketLeapArray, SlidingWindowMetric};
use sentinel_core::{circuitbreaker as cb, flow, stat, EntryBuilder};
use seq::*;
use std::sync::Arc;

const T0: u64 = 1_700_000_000_000;

fn ring() {
    let ring = Arc::new(BucketLeapArray::new(4, 1000).unwrap());
    let win = SlidingWindowMetric::new(2, 500, ring.clone()).unwrap();
    let mut t = T0;
    let mut written: Vec<(u64, u64)> = vec![];
    for i in 0..60u64 {
        t += [0, 1, 249, 250, 251, 1000, 1250][(i % 7) as usize];
        ring.add_count_with_time(t, MetricEvent::Pass, 1 + i % 3).unwrap();
        written.push((t, 1 + i % 3));
        let bs = t - t % 250;
        let want: u64 = written.iter().filter(|(e, _)| e - e % 250 + 250 >= bs && e - e % 250 <= bs).map(|x| x.1).sum();
        assert_eq!(win.sum_with_time(t, MetricEvent::Pass), want, "window sum at {t}");
    }
    println!("auxm ring ok: {} writes", written.len());
}

fn chain() {
    VClock::set_ms(T0 + 10_000);
    let res = "auxm-flow".to_string();
    flow::load_rules_of_resource(&res, vec![Arc::new(flow::Rule { resource: res.clone(), threshold: 2.0, ..Default::default() })]).unwrap();
    let mut ok = 0;
    for _ in 0..5 {
        if let Ok(e) = EntryBuilder::new(res.clone()).build() {
            ok += 1;
            e.exit();
        }
    }
    assert_eq!(ok, 2, "threshold 2 admits 2 of 5 at one instant");
    VClock::advance_ms(1000);
    assert!(EntryBuilder::new(res.clone()).build().map(|e| e.exit()).is_ok(), "admitted again one window later");
    let node = stat::get_resource_node(&res).unwrap();
    assert_eq!(node.sum(MetricEvent::Pass), 1);
    flow::clear_rules_of_resource(&res);
    println!("auxm chain ok");
}

fn breaker() {
    VClock::set_ms(T0 + 20_000);
    let res = "auxm-cb".to_string();
    cb::load_rules_of_resource(
        &res,
        vec![Arc::new(cb::Rule { resource: res.clone(), strategy: cb::BreakerStrategy::ErrorCount, threshold: 1.0, min_request_amount: 1, stat_interval_ms: 1000, retry_timeout_ms: 500, ..Default::default() })],
    )
    .unwrap();
    let e = EntryBuilder::new(res.clone()).build().unwrap();
    e.set_err(sentinel_core::Error::msg("x"));
    e.exit();
    assert!(EntryBuilder::new(res.clone()).build().is_err(), "open breaker rejects");
    VClock::advance_ms(500);
    let probe = EntryBuilder::new(res.clone()).build().expect("probe admitted after the retry timeout");
    assert!(EntryBuilder::new(res.clone()).build().is_err(), "half-open rejects");
    probe.exit();
    assert!(EntryBuilder::new(res.clone()).build().map(|e| e.exit()).is_ok(), "closed again");
    cb::clear_rules_of_resource(&res);
    println!("auxm breaker ok");
}

fn threads() {
    VClock::set_ms(T0 + 30_250);
    let res = "auxm-threads".to_string();
    let hs: Vec<_> = (0..2)
        .map(|_| {
            let res = res.clone();
            std::thread::spawn(move || {
                for _ in 0..2 {
                    EntryBuilder::new(res.clone()).build().expect("no rules").exit();
                }
            })
        })
        .collect();
    for h in hs {
        h.join().unwrap();
    }
    let node = stat::get_resource_node(&res).unwrap();
    assert_eq!(node.sum(MetricEvent::Pass), 4, "four entries accounted on the shared node");
    assert_eq!(node.sum(MetricEvent::Complete), 4);
    println!("auxm threads ok");
}

fn main() {
    VClock::install(T0);
    let part = std::env::args().nth(1).unwrap_or_else(|| "all".into());
    if part == "all" || part == "ring" {
        ring();
    }
    if part == "all" || part == "chain" {
        chain();
    }
    if part == "all" || part == "breaker" {
        breaker();
    }
    if part == "all" || part == "threads" {
        threads();
    }
    println!("auxm done");
}
