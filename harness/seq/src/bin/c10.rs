//! C10 — rule managers hold and enforce exactly the valid rules last given, incl. appends.
//!
//! Monitor: a reference map (family -> resource -> set of valid rules under rule
//! equality) is updated by the same generated operation sequence as the real
//! manager; after every operation the reported rules (get_rules,
//! get_rules_of_resource), the enforced objects (controllers / breakers) and, for
//! flow and isolation, real admission decisions are compared with it.
//! Every manager call runs under catch_unwind; after a panic the process asks the
//! driver for a fresh process (a panic may have poisoned a global lock).

use common::{fresh_name, Opts, Report, Rng, T0_MS};
use sentinel_core::base::{EntryStrongPtr, SentinelRule};
use sentinel_core::{circuitbreaker as cb, flow, hotspot, isolation, system, EntryBuilder};
use seq::*;
use serde_json::{json, Value};
use std::collections::{BTreeMap, BTreeSet};
use std::sync::Arc;

/// one family of rules behind a uniform interface
trait Family {
    type Rule: SentinelRule + 'static;
    const NAME: &'static str;
    const HAS_RESOURCE_OPS: bool = true;
    /// pool for one resource: (rule, valid?)
    fn pool(res: &str, rng: &mut Rng) -> Vec<Arc<Self::Rule>>;
    /// same content, new id
    fn twin(r: &Self::Rule) -> Self::Rule;
    fn resource(r: &Self::Rule) -> String;
    /// the equality-relevant content of a rule (ids excluded), as text
    fn key(r: &Self::Rule) -> String;
    fn load(rules: Vec<Arc<Self::Rule>>) -> Option<bool>;
    fn load_res(res: &String, rules: Vec<Arc<Self::Rule>>) -> Result<bool, String>;
    fn append(r: Arc<Self::Rule>) -> bool;
    fn clear();
    fn clear_res(res: &String);
    fn reported() -> Vec<Arc<Self::Rule>>;
    fn reported_res(res: &String) -> Vec<Arc<Self::Rule>>;
    /// rules bound to the enforcing objects of a resource (controllers, breakers)
    fn enforced_res(_res: &String) -> Option<Vec<Arc<Self::Rule>>> {
        None
    }
    /// how many single-token requests at one fresh instant are admitted, if the
    /// family can be probed that way; `expected` computed from reference rules
    fn probe(_res: &String, _reference: &[Arc<Self::Rule>]) -> Option<(u64, u64)> {
        None
    }
}

struct FlowF;
impl Family for FlowF {
    type Rule = flow::Rule;
    const NAME: &'static str = "flow";
    fn pool(res: &str, rng: &mut Rng) -> Vec<Arc<flow::Rule>> {
        let mut v = vec![];
        let mk = |th: f64, iv: u32| flow::Rule {
            resource: res.to_string(),
            threshold: th,
            stat_interval_ms: iv,
            ..Default::default()
        };
        for (th, iv) in [(1.0, 0u32), (2.0, 0), (3.0, 2000), (5.0, 700), (4.0, 1000), (6.0, 20_000)] {
            if rng.chance(2, 3) {
                v.push(Arc::new(mk(th, iv)));
            }
        }
        v.push(Arc::new(mk(7.0, 0)));
        // throttling rule (valid, no statistics)
        v.push(Arc::new(flow::Rule {
            resource: res.to_string(),
            threshold: 1000.0,
            control_strategy: flow::ControlStrategy::Throttling,
            max_queueing_time_ms: 0,
            ..Default::default()
        }));
        // invalid ones
        v.push(Arc::new(mk(-1.0, 0)));
        v.push(Arc::new(flow::Rule {
            resource: res.to_string(),
            threshold: 9.0,
            calculate_strategy: flow::CalculateStrategy::WarmUp,
            warm_up_period_sec: 0,
            ..Default::default()
        }));
        v
    }
    fn twin(r: &flow::Rule) -> flow::Rule {
        flow::Rule {
            id: flow::Rule::default().id,
            ..r.clone()
        }
    }
    fn resource(r: &flow::Rule) -> String {
        r.resource.clone()
    }
    fn key(r: &flow::Rule) -> String {
        format!("{}|{:?}|{:?}|{:?}|{}|{}|{}|{}|{}", r.resource, r.calculate_strategy, r.control_strategy, r.relation_strategy, r.threshold, r.warm_up_period_sec, r.warm_up_cold_factor, r.max_queueing_time_ms, r.stat_interval_ms)
    }
    fn load(rules: Vec<Arc<flow::Rule>>) -> Option<bool> {
        Some(flow::load_rules(rules))
    }
    fn load_res(res: &String, rules: Vec<Arc<flow::Rule>>) -> Result<bool, String> {
        flow::load_rules_of_resource(res, rules).map_err(|e| e.to_string())
    }
    fn append(r: Arc<flow::Rule>) -> bool {
        flow::append_rule(r)
    }
    fn clear() {
        flow::clear_rules()
    }
    fn clear_res(res: &String) {
        flow::clear_rules_of_resource(res)
    }
    fn reported() -> Vec<Arc<flow::Rule>> {
        flow::get_rules()
    }
    fn reported_res(res: &String) -> Vec<Arc<flow::Rule>> {
        flow::get_rules_of_resource(res)
    }
    fn enforced_res(res: &String) -> Option<Vec<Arc<flow::Rule>>> {
        Some(flow::get_traffic_controller_list_for(res).iter().map(|c| c.rule().clone()).collect())
    }
    fn probe(res: &String, reference: &[Arc<flow::Rule>]) -> Option<(u64, u64)> {
        // fresh windows everywhere: jump 30 s ahead, then fire single-token requests at one instant
        VClock::advance_ms(30_000);
        let cap = 12u64;
        let mut expect = cap;
        for r in reference {
            if r.control_strategy == flow::ControlStrategy::Reject {
                expect = expect.min(r.threshold.floor() as u64);
            } else {
                expect = expect.min(1); // throttling, no queueing: only the first passes at one instant
            }
        }
        let mut got = 0;
        for _ in 0..cap {
            if let Ok(e) = EntryBuilder::new(res.clone()).build() {
                e.exit();
                got += 1;
            }
        }
        Some((got, expect))
    }
}

struct IsoF;
impl Family for IsoF {
    type Rule = isolation::Rule;
    const NAME: &'static str = "isolation";
    fn pool(res: &str, rng: &mut Rng) -> Vec<Arc<isolation::Rule>> {
        let mut v = vec![];
        for th in [1u32, 2, 3, 4, 6] {
            if rng.chance(2, 3) || th == 6 {
                v.push(Arc::new(isolation::Rule {
                    resource: res.to_string(),
                    threshold: th,
                    ..Default::default()
                }));
            }
        }
        v.push(Arc::new(isolation::Rule {
            resource: res.to_string(),
            threshold: 0,
            ..Default::default()
        }));
        v
    }
    fn twin(r: &isolation::Rule) -> isolation::Rule {
        isolation::Rule {
            id: isolation::Rule::default().id,
            ..r.clone()
        }
    }
    fn resource(r: &isolation::Rule) -> String {
        r.resource.clone()
    }
    fn key(r: &isolation::Rule) -> String {
        format!("{}|{:?}|{}", r.resource, r.metric_type, r.threshold)
    }
    fn load(rules: Vec<Arc<isolation::Rule>>) -> Option<bool> {
        isolation::load_rules(rules);
        None
    }
    fn load_res(res: &String, rules: Vec<Arc<isolation::Rule>>) -> Result<bool, String> {
        isolation::load_rules_of_resource(res, rules).map_err(|e| e.to_string())
    }
    fn append(r: Arc<isolation::Rule>) -> bool {
        isolation::append_rule(r)
    }
    fn clear() {
        isolation::clear_rules()
    }
    fn clear_res(res: &String) {
        isolation::clear_rules_of_resource(res)
    }
    fn reported() -> Vec<Arc<isolation::Rule>> {
        isolation::get_rules()
    }
    fn reported_res(res: &String) -> Vec<Arc<isolation::Rule>> {
        isolation::get_rules_of_resource(res)
    }
    fn probe(res: &String, reference: &[Arc<isolation::Rule>]) -> Option<(u64, u64)> {
        let cap = 9u64;
        let expect = reference.iter().map(|r| r.threshold as u64).min().unwrap_or(cap).min(cap);
        let mut open: Vec<EntryStrongPtr> = vec![];
        for _ in 0..cap {
            if let Ok(e) = EntryBuilder::new(res.clone()).build() {
                open.push(e);
            }
        }
        let got = open.len() as u64;
        for e in open {
            e.exit();
        }
        Some((got, expect))
    }
}

struct HotF;
impl Family for HotF {
    type Rule = hotspot::Rule;
    const NAME: &'static str = "hotspot";
    fn pool(res: &str, rng: &mut Rng) -> Vec<Arc<hotspot::Rule>> {
        let mut v = vec![];
        for th in [1u64, 2, 3] {
            if rng.chance(2, 3) || th == 3 {
                v.push(Arc::new(hotspot::Rule {
                    resource: res.to_string(),
                    metric_type: hotspot::MetricType::Concurrency,
                    threshold: th,
                    params_max_capacity: 8,
                    ..Default::default()
                }));
            }
        }
        v.push(Arc::new(hotspot::Rule {
            resource: res.to_string(),
            metric_type: hotspot::MetricType::QPS,
            control_strategy: hotspot::ControlStrategy::Reject,
            threshold: 5,
            duration_in_sec: 1,
            params_max_capacity: 8,
            ..Default::default()
        }));
        v.push(Arc::new(hotspot::Rule {
            resource: res.to_string(),
            metric_type: hotspot::MetricType::QPS,
            control_strategy: hotspot::ControlStrategy::Throttling,
            threshold: 5,
            duration_in_sec: 2,
            max_queueing_time_ms: 10,
            params_max_capacity: 8,
            ..Default::default()
        }));
        // invalid
        v.push(Arc::new(hotspot::Rule {
            resource: res.to_string(),
            metric_type: hotspot::MetricType::QPS,
            threshold: 5,
            duration_in_sec: 0,
            ..Default::default()
        }));
        v.push(Arc::new(hotspot::Rule {
            resource: res.to_string(),
            param_index: 2,
            param_key: "k".into(),
            threshold: 1,
            ..Default::default()
        }));
        v
    }
    fn twin(r: &hotspot::Rule) -> hotspot::Rule {
        hotspot::Rule {
            id: hotspot::Rule::default().id,
            ..r.clone()
        }
    }
    fn resource(r: &hotspot::Rule) -> String {
        r.resource.clone()
    }
    fn key(r: &hotspot::Rule) -> String {
        format!("{}|{:?}|{:?}|{}|{}|{}|{}|{}|{}|{}", r.resource, r.metric_type, r.control_strategy, r.param_index, r.param_key, r.threshold, r.duration_in_sec, r.params_max_capacity, r.burst_count, r.max_queueing_time_ms)
    }
    fn load(rules: Vec<Arc<hotspot::Rule>>) -> Option<bool> {
        Some(hotspot::load_rules(rules))
    }
    fn load_res(res: &String, rules: Vec<Arc<hotspot::Rule>>) -> Result<bool, String> {
        hotspot::load_rules_of_resource(res, rules).map_err(|e| e.to_string())
    }
    fn append(r: Arc<hotspot::Rule>) -> bool {
        hotspot::append_rule(r)
    }
    fn clear() {
        hotspot::clear_rules()
    }
    fn clear_res(res: &String) {
        hotspot::clear_rules_of_resource(res)
    }
    fn reported() -> Vec<Arc<hotspot::Rule>> {
        hotspot::get_rules()
    }
    fn reported_res(res: &String) -> Vec<Arc<hotspot::Rule>> {
        hotspot::get_rules_of_resource(res)
    }
    fn enforced_res(res: &String) -> Option<Vec<Arc<hotspot::Rule>>> {
        Some(hotspot::get_traffic_controller_list_for(res).iter().map(|c| c.rule().clone()).collect())
    }
}

struct CbF;
impl Family for CbF {
    type Rule = cb::Rule;
    const NAME: &'static str = "circuitbreaker";
    fn pool(res: &str, rng: &mut Rng) -> Vec<Arc<cb::Rule>> {
        let mut v = vec![];
        let mk = |s: cb::BreakerStrategy, th: f64, iv: u32, retry: u32| cb::Rule {
            resource: res.to_string(),
            strategy: s,
            threshold: th,
            stat_interval_ms: iv,
            retry_timeout_ms: retry,
            min_request_amount: 2,
            ..Default::default()
        };
        for (s, th, iv) in [
            (cb::BreakerStrategy::ErrorCount, 3.0, 1000u32),
            (cb::BreakerStrategy::ErrorCount, 5.0, 1000),
            (cb::BreakerStrategy::ErrorRatio, 0.5, 1000),
            (cb::BreakerStrategy::ErrorRatio, 0.5, 2000),
            (cb::BreakerStrategy::SlowRequestRatio, 0.3, 1000),
        ] {
            if rng.chance(2, 3) {
                v.push(Arc::new(mk(s, th, iv, 1000)));
            }
        }
        v.push(Arc::new(mk(cb::BreakerStrategy::ErrorCount, 7.0, 3000, 500)));
        // invalid
        v.push(Arc::new(mk(cb::BreakerStrategy::ErrorCount, 3.0, 0, 1000)));
        v.push(Arc::new(mk(cb::BreakerStrategy::ErrorRatio, 1.5, 1000, 1000)));
        v.push(Arc::new(mk(cb::BreakerStrategy::ErrorCount, 3.0, 1000, 0)));
        v
    }
    fn twin(r: &cb::Rule) -> cb::Rule {
        cb::Rule {
            id: cb::Rule::default().id,
            ..r.clone()
        }
    }
    fn resource(r: &cb::Rule) -> String {
        r.resource.clone()
    }
    fn key(r: &cb::Rule) -> String {
        format!("{}|{:?}|{}|{}|{}|{}|{}|{}", r.resource, r.strategy, r.retry_timeout_ms, r.min_request_amount, r.stat_interval_ms, r.stat_sliding_window_bucket_count, r.max_allowed_rt_ms, r.threshold)
    }
    fn load(rules: Vec<Arc<cb::Rule>>) -> Option<bool> {
        Some(cb::load_rules(rules))
    }
    fn load_res(res: &String, rules: Vec<Arc<cb::Rule>>) -> Result<bool, String> {
        cb::load_rules_of_resource(res, rules).map_err(|e| e.to_string())
    }
    fn append(r: Arc<cb::Rule>) -> bool {
        cb::append_rule(r)
    }
    fn clear() {
        cb::clear_rules()
    }
    fn clear_res(res: &String) {
        cb::clear_rules_of_resource(res)
    }
    fn reported() -> Vec<Arc<cb::Rule>> {
        cb::get_rules()
    }
    fn reported_res(res: &String) -> Vec<Arc<cb::Rule>> {
        cb::get_rules_of_resource(res)
    }
    fn enforced_res(res: &String) -> Option<Vec<Arc<cb::Rule>>> {
        Some(cb::get_breakers_of_resource(res).iter().map(|b| b.bound_rule().clone()).collect())
    }
}

struct SysF;
impl Family for SysF {
    type Rule = system::Rule;
    const NAME: &'static str = "system";
    const HAS_RESOURCE_OPS: bool = false;
    fn pool(res: &str, rng: &mut Rng) -> Vec<Arc<system::Rule>> {
        // "resource" = metric type
        let mt = match res {
            "Load" => system::MetricType::Load,
            "AvgRT" => system::MetricType::AvgRT,
            "Concurrency" => system::MetricType::Concurrency,
            "InboundQPS" => system::MetricType::InboundQPS,
            _ => system::MetricType::CpuUsage,
        };
        let mut v = vec![];
        for th in [0.5, 0.75, 1.0] {
            if rng.chance(2, 3) || th == 1.0 {
                v.push(Arc::new(system::Rule {
                    metric_type: mt,
                    threshold: th,
                    ..Default::default()
                }));
            }
        }
        v.push(Arc::new(system::Rule {
            metric_type: mt,
            threshold: 0.25,
            strategy: system::AdaptiveStrategy::BBR,
            ..Default::default()
        }));
        v.push(Arc::new(system::Rule {
            metric_type: mt,
            threshold: -1.0,
            ..Default::default()
        }));
        v
    }
    fn twin(r: &system::Rule) -> system::Rule {
        system::Rule {
            id: system::Rule::default().id,
            ..r.clone()
        }
    }
    fn resource(r: &system::Rule) -> String {
        format!("{:?}", r.metric_type)
    }
    fn key(r: &system::Rule) -> String {
        format!("{:?}|{}|{:?}", r.metric_type, r.threshold, r.strategy)
    }
    fn load(rules: Vec<Arc<system::Rule>>) -> Option<bool> {
        system::load_rules(rules);
        None
    }
    fn load_res(_res: &String, _rules: Vec<Arc<system::Rule>>) -> Result<bool, String> {
        unreachable!()
    }
    fn append(r: Arc<system::Rule>) -> bool {
        system::append_rule(r)
    }
    fn clear() {
        system::clear_rules()
    }
    fn clear_res(_res: &String) {
        unreachable!()
    }
    fn reported() -> Vec<Arc<system::Rule>> {
        system::get_rules()
    }
    fn reported_res(res: &String) -> Vec<Arc<system::Rule>> {
        system::get_rules().into_iter().filter(|r| format!("{:?}", r.metric_type) == *res).collect()
    }
}

#[derive(Clone, Debug)]
enum Op {
    Load(Vec<usize>),
    LoadRes(usize, Vec<usize>),
    Append(usize),
    Clear,
    ClearRes(usize),
    /// load the very same list of Arcs as the previous Load again
    Reload,
}

struct Outcome {
    sig: Option<String>,
    violation: Option<(String, String)>,
    poisoned: bool,
    ops: u64,
    log: Vec<String>,
}

fn run_family<F: Family>(rng: &mut Rng, len: usize) -> Outcome {
    let nres = rng.range(2, 3) as usize;
    let resources: Vec<String> = if F::HAS_RESOURCE_OPS {
        (0..nres).map(|_| fresh_name(&format!("c10{}", &F::NAME[..2]))).collect()
    } else {
        let mut all = vec!["Load", "AvgRT", "Concurrency", "InboundQPS", "CpuUsage"];
        rng.shuffle(&mut all);
        all[..nres].iter().map(|s| s.to_string()).collect()
    };
    // pool: index -> rule; twins (same content, other id) appended
    let mut pool: Vec<Arc<F::Rule>> = vec![];
    for r in &resources {
        let p = F::pool(r, rng);
        for x in &p {
            if x.is_valid().is_ok() && rng.chance(1, 3) {
                pool.push(Arc::new(F::twin(x)));
            }
        }
        pool.extend(p);
    }
    rng.shuffle(&mut pool);
    let valid: Vec<bool> = pool.iter().map(|r| r.is_valid().is_ok()).collect();
    let keys: Vec<String> = pool.iter().map(|r| F::key(r)).collect();
    let res_of: Vec<String> = pool.iter().map(|r| F::resource(r)).collect();

    let mut out = Outcome {
        sig: None,
        violation: None,
        poisoned: false,
        ops: 0,
        log: vec![],
    };
    macro_rules! guarded {
        ($what:expr, $call:expr) => {{
            match common::catch(|| $call) {
                Ok(v) => v,
                Err(p) => {
                    out.violation = Some((format!("panic/{}/{}/{}", F::NAME, $what, common::panic_site(&p)), format!("{} panicked: {p}; history: {:?}", $what, out.log)));
                    out.poisoned = true;
                    return out;
                }
            }
        }};
    }
    guarded!("clear_rules", F::clear());
    // reference: resource -> set of content keys ; given: the last list handed to load (Arcs)
    let mut reference: BTreeMap<String, BTreeSet<String>> = BTreeMap::new();
    let mut last_load: Option<Vec<usize>> = None;
    let mut dirty_since_load = false;
    let (mut n_append_on_existing, mut n_invalid, mut n_twin, mut n_reload, mut n_replace) = (0u32, 0u32, 0u32, 0u32, 0u32);
    let pick_subset = |rng: &mut Rng, filter: &dyn Fn(usize) -> bool| -> Vec<usize> {
        let cand: Vec<usize> = (0..pool.len()).filter(|i| filter(*i)).collect();
        let mut v: Vec<usize> = cand.into_iter().filter(|_| rng.chance(1, 3)).collect();
        rng.shuffle(&mut v);
        v
    };
    let has_dup = |idx: &[usize]| -> bool {
        let mut seen = BTreeSet::new();
        idx.iter().any(|i| !seen.insert(keys[*i].clone()))
    };
    for step in 0..len {
        let op = match rng.below(if F::HAS_RESOURCE_OPS { 12 } else { 9 }) {
            0 | 1 => Op::Load(pick_subset(rng, &|_| true)),
            2..=5 => Op::Append(rng.below(pool.len() as u64) as usize),
            6 => Op::Clear,
            7 | 8 => {
                if last_load.is_some() {
                    Op::Reload
                } else {
                    Op::Load(pick_subset(rng, &|_| true))
                }
            }
            9 | 10 => {
                let r = rng.below(nres as u64) as usize;
                let rn = resources[r].clone();
                Op::LoadRes(r, pick_subset(rng, &|i| res_of[i] == rn))
            }
            _ => Op::ClearRes(rng.below(nres as u64) as usize),
        };
        out.ops += 1;
        out.log.push(format!("{op:?}"));
        let describe = |idx: &[usize]| idx.iter().map(|i| format!("{}{}", keys[*i], if valid[*i] { "" } else { "(invalid)" })).collect::<Vec<_>>();
        match &op {
            Op::Load(_) | Op::Reload => {
                let idx: Vec<usize> = if let Op::Load(i) = &op { i.clone() } else { last_load.clone().unwrap() };
                let is_reload = matches!(op, Op::Reload);
                let rules: Vec<Arc<F::Rule>> = idx.iter().map(|i| pool[*i].clone()).collect();
                let ret = guarded!("load_rules", F::load(rules));
                let mut newref: BTreeMap<String, BTreeSet<String>> = BTreeMap::new();
                for i in &idx {
                    if valid[*i] {
                        newref.entry(res_of[*i].clone()).or_default().insert(keys[*i].clone());
                    } else {
                        n_invalid += 1;
                    }
                }
                if is_reload {
                    n_reload += 1;
                    if let Some(r) = ret {
                        // the very same list again, nothing else happened in between: unchanged
                        if !dirty_since_load && r && !has_dup(&idx) {
                            out.violation = Some((format!("{}/load_rules/identical-reload-reported-as-changed", F::NAME), format!("history {:?}", out.log)));
                            break;
                        }
                    }
                } else if let Some(r) = ret {
                    // a different set must be reported as changed (asserted when no duplicates are involved)
                    if !r && newref != reference && !has_dup(&idx) {
                        out.violation = Some((format!("{}/load_rules/change-reported-as-unchanged", F::NAME), format!("given {:?}; history {:?}", describe(&idx), out.log)));
                        break;
                    }
                }
                if newref != reference {
                    n_replace += 1;
                }
                reference = newref;
                last_load = Some(idx);
                dirty_since_load = false;
            }
            Op::LoadRes(r, idx) => {
                let rn = resources[*r].clone();
                let rules: Vec<Arc<F::Rule>> = idx.iter().map(|i| pool[*i].clone()).collect();
                let ret = guarded!("load_rules_of_resource", F::load_res(&rn, rules));
                if let Err(e) = ret {
                    out.violation = Some((format!("{}/load_rules_of_resource/error", F::NAME), e));
                    break;
                }
                let mut set = BTreeSet::new();
                for i in idx {
                    if valid[*i] {
                        set.insert(keys[*i].clone());
                    } else {
                        n_invalid += 1;
                    }
                }
                if set.is_empty() {
                    reference.remove(&rn);
                } else {
                    reference.insert(rn, set);
                }
                dirty_since_load = true;
            }
            Op::Append(i) => {
                let existed = reference.get(&res_of[*i]).map_or(false, |s| !s.is_empty());
                let already = reference.get(&res_of[*i]).map_or(false, |s| s.contains(&keys[*i]));
                let ret = guarded!("append_rule", F::append(pool[*i].clone()));
                if valid[*i] {
                    if existed && !already {
                        n_append_on_existing += 1;
                    }
                    if already {
                        n_twin += 1;
                    }
                    if !already && !ret {
                        out.violation = Some((format!("{}/append_rule/new-rule-reported-as-not-appended", F::NAME), format!("rule {}; history {:?}", keys[*i], out.log)));
                        break;
                    }
                    reference.entry(res_of[*i].clone()).or_default().insert(keys[*i].clone());
                } else {
                    n_invalid += 1;
                }
                dirty_since_load = true;
            }
            Op::Clear => {
                guarded!("clear_rules", F::clear());
                reference.clear();
                dirty_since_load = true;
            }
            Op::ClearRes(r) => {
                guarded!("clear_rules_of_resource", F::clear_res(&resources[*r]));
                reference.remove(&resources[*r]);
                dirty_since_load = true;
            }
        }
        // ---- compare what is reported / enforced with the reference (sets under equality)
        let opname = match &op {
            Op::Load(_) | Op::Reload => "load_rules",
            Op::LoadRes(..) => "load_rules_of_resource",
            Op::Append(_) => "append_rule",
            Op::Clear => "clear_rules",
            Op::ClearRes(_) => "clear_rules_of_resource",
        };
        let all: BTreeSet<String> = guarded!("get_rules", F::reported()).iter().map(|r| F::key(r)).collect();
        let want_all: BTreeSet<String> = reference.values().flatten().cloned().collect();
        if all != want_all {
            let missing: Vec<&String> = want_all.difference(&all).collect();
            let extra: Vec<&String> = all.difference(&want_all).collect();
            out.violation = Some((
                format!("{}/{opname}/get_rules-{}", F::NAME, if !missing.is_empty() { "misses-active-rule" } else { "reports-rule-not-given" }),
                format!("step {step}: missing {missing:?} extra {extra:?}; history {:?}; pool {:?}", out.log, pool.iter().enumerate().map(|(i, r)| format!("{i}:{}{}", keys[i], if valid[i] { "" } else { "!" })).collect::<Vec<_>>()),
            ));
            break;
        }
        for rn in &resources {
            let want: BTreeSet<String> = reference.get(rn).cloned().unwrap_or_default();
            let got: BTreeSet<String> = guarded!("get_rules_of_resource", F::reported_res(rn)).iter().map(|r| F::key(r)).collect();
            if got != want {
                out.violation = Some((
                    format!("{}/{opname}/get_rules_of_resource-{}", F::NAME, if want.difference(&got).next().is_some() { "misses-active-rule" } else { "reports-rule-not-given" }),
                    format!("step {step} resource {rn}: reported {got:?}, reference {want:?}; history {:?}", out.log),
                ));
                break;
            }
            if let Some(enf) = guarded!("enforced", F::enforced_res(rn)) {
                let got: BTreeSet<String> = enf.iter().map(|r| F::key(r)).collect();
                if got != want {
                    out.violation = Some((
                        format!("{}/{opname}/enforced-{}", F::NAME, if want.difference(&got).next().is_some() { "drops-active-rule" } else { "keeps-rule-not-given" }),
                        format!("step {step} resource {rn}: enforcing objects carry {got:?}, reference {want:?}; history {:?}", out.log),
                    ));
                    break;
                }
            }
            let refrules: Vec<Arc<F::Rule>> = pool
                .iter()
                .enumerate()
                .filter(|(i, _)| valid[*i] && res_of[*i] == *rn && want.contains(&keys[*i]))
                .map(|(_, r)| r.clone())
                .collect();
            if let Some((got, expect)) = guarded!("probe", F::probe(rn, &refrules)) {
                if got != expect {
                    out.violation = Some((
                        format!("{}/{opname}/decisions-{}", F::NAME, if got > expect { "rule-not-enforced" } else { "stricter-than-rules" }),
                        format!("step {step} resource {rn}: {got} requests admitted, the reference rules {want:?} allow {expect}; history {:?}", out.log),
                    ));
                    break;
                }
            }
        }
        if out.violation.is_some() {
            break;
        }
    }
    let _ = common::catch(|| F::clear());
    if n_replace > 0 || n_append_on_existing > 0 {
        out.sig = Some(format!(
            "{}|res{}|append-on-existing{}|invalid{}|twin{}|reload{}|replace{}",
            F::NAME,
            nres,
            n_append_on_existing.min(3),
            (n_invalid > 0) as u8,
            (n_twin > 0) as u8,
            (n_reload > 0) as u8,
            n_replace.min(3)
        ));
    }
    out
}

fn main() {
    let opts = Opts::parse();
    common::install_panic_capture();
    common::install_logger();
    let mut rep = Report::new("C10", &opts);
    VClock::install(T0_MS + 3_000_000_000 * (1 + opts.shard));
    let thorough = opts.thorough();
    let ncases: u64 = if thorough { 40_000 } else { 4_000 };
    let from: u64 = opts.flag("from").map(|s| s.parse().unwrap()).unwrap_or(0);
    for i in from..ncases {
        if rep.over_budget() {
            break;
        }
        // per-case PRNG so that a restarted process continues with the same cases
        let mut rng = Rng::new(opts.seed.wrapping_mul(0x9E37).wrapping_add(opts.shard * 1_000_003).wrapping_add(i * 7919).wrapping_add(thorough as u64));
        let len = 2 + rng.below(11) as usize;
        VClock::advance_ms(60_000);
        let fam = opts.flag("family").map(|s| s.parse().unwrap()).unwrap_or(i % 5);
        let o = match fam {
            0 => run_family::<FlowF>(&mut rng, len),
            1 => run_family::<IsoF>(&mut rng, len),
            2 => run_family::<HotF>(&mut rng, len),
            3 => run_family::<CbF>(&mut rng, len),
            _ => run_family::<SysF>(&mut rng, len),
        };
        rep.count("operations", o.ops);
        let case = json!({"case_index": i, "family": (["flow", "isolation", "hotspot", "circuitbreaker", "system"][fam as usize]), "history": o.log});
        rep.case(o.sig.clone(), || case.clone());
        if let Some((sig, detail)) = o.violation {
            rep.violation(&sig, detail, case);
        }
        if o.poisoned {
            // a panic inside a manager may have poisoned a global lock: continue in a fresh process
            rep.extra.insert("resume_from".into(), json!(i + 1));
            rep.finish();
        }
        if i % 200 == 199 {
            sentinel_core::stat::reset_resource_map();
        }
    }
    rep.finish()
}
