//! C12 — valid rules are enforceable without panics; invalid input never poisons Sentinel.
//!
//! Monitor: rules drawn from the cross product of the enum-valued fields of all
//! five families with boundary / invalid numerics are loaded through every
//! loading entry point; entries with extreme batch counts and argument lists are
//! built and exited; everything runs under catch_unwind with a log sink at trace
//! level (so Display/Debug code in log statements really runs). After every case
//! a health probe exercises every manager on an unrelated resource.
//! A watchdog thread turns a case that makes no progress into a suspect; the
//! driver re-runs suspects alone before calling them a hang.

use common::{fresh_name, Opts, Report, Rng, T0_MS};
use sentinel_core::base::{SentinelRule, TrafficType};
use sentinel_core::{circuitbreaker as cb, flow, hotspot, isolation, system, EntryBuilder};
use seq::*;
use serde_json::{json, Value};
use std::collections::HashMap;
use std::sync::atomic::{AtomicU64, Ordering};
use std::sync::{Arc, Mutex, Once};

static PROGRESS: AtomicU64 = AtomicU64::new(0);

enum AnyRule {
    Flow(flow::Rule),
    Iso(isolation::Rule),
    Hot(hotspot::Rule),
    Cb(cb::Rule),
    Sys(system::Rule),
}

impl AnyRule {
    fn family(&self) -> &'static str {
        match self {
            AnyRule::Flow(_) => "flow",
            AnyRule::Iso(_) => "isolation",
            AnyRule::Hot(_) => "hotspot",
            AnyRule::Cb(_) => "circuitbreaker",
            AnyRule::Sys(_) => "system",
        }
    }
    fn is_valid(&self) -> bool {
        match self {
            AnyRule::Flow(r) => r.is_valid().is_ok(),
            AnyRule::Iso(r) => r.is_valid().is_ok(),
            AnyRule::Hot(r) => r.is_valid().is_ok(),
            AnyRule::Cb(r) => r.is_valid().is_ok(),
            AnyRule::Sys(r) => r.is_valid().is_ok(),
        }
    }
    fn id(&self) -> String {
        match self {
            AnyRule::Flow(r) => r.id.clone(),
            AnyRule::Iso(r) => r.id.clone(),
            AnyRule::Hot(r) => r.id.clone(),
            AnyRule::Cb(r) => r.id.clone(),
            AnyRule::Sys(r) => r.id.clone(),
        }
    }
    fn describe(&self) -> String {
        match self {
            AnyRule::Flow(r) => format!("{r:?}"),
            AnyRule::Iso(r) => format!("{r:?}"),
            AnyRule::Hot(r) => format!("{r:?}"),
            AnyRule::Cb(r) => format!("{r:?}"),
            AnyRule::Sys(r) => format!("{r:?}"),
        }
    }
    /// short class of the rule for coverage signatures
    fn class(&self) -> String {
        match self {
            AnyRule::Flow(r) => format!("flow:{:?}/{:?}/{:?}", r.calculate_strategy, r.control_strategy, r.relation_strategy),
            AnyRule::Iso(_) => "isolation".into(),
            AnyRule::Hot(r) => format!("hotspot:{:?}/{:?}/idx{}key{}", r.metric_type, r.control_strategy, r.param_index.signum(), !r.param_key.is_empty() as u8),
            AnyRule::Cb(r) => format!("cb:{:?}", r.strategy),
            AnyRule::Sys(r) => format!("system:{:?}/{:?}", r.metric_type, r.strategy),
        }
    }
}

const CUSTOM_WITH_GEN: u8 = 7;
const CUSTOM_NO_GEN: u8 = 8;

static GEN_ONCE: Once = Once::new();

/// custom generators that build working controllers / breakers from the public constructors
fn register_generators() {
    GEN_ONCE.call_once(|| {
        use flow::{Calculator, Checker};
        let gen = |rule: Arc<flow::Rule>, _stat: Option<Arc<flow::StandaloneStat>>| -> sentinel_core::Result<Arc<flow::Controller>> {
            let stat = Arc::new(flow::StandaloneStat::new(
                false,
                sentinel_core::base::nop_read_stat(),
                Some(sentinel_core::base::nop_write_stat()),
            ));
            let calculator: Arc<Mutex<dyn Calculator>> = Arc::new(Mutex::new(flow::DirectCalculator::new(std::sync::Weak::new(), rule.clone())));
            let checker: Arc<Mutex<dyn Checker>> = Arc::new(Mutex::new(flow::ThrottlingChecker::new(std::sync::Weak::new(), rule.clone())));
            let mut tsc = flow::Controller::new(rule, stat);
            tsc.set_calculator(calculator.clone());
            tsc.set_checker(checker.clone());
            let tsc = Arc::new(tsc);
            calculator.lock().unwrap().set_owner(Arc::downgrade(&tsc));
            checker.lock().unwrap().set_owner(Arc::downgrade(&tsc));
            Ok(tsc)
        };
        for (c, k) in [
            (flow::CalculateStrategy::Custom(CUSTOM_WITH_GEN), flow::ControlStrategy::Custom(CUSTOM_WITH_GEN)),
            (flow::CalculateStrategy::Custom(CUSTOM_WITH_GEN), flow::ControlStrategy::Reject),
            (flow::CalculateStrategy::Direct, flow::ControlStrategy::Custom(CUSTOM_WITH_GEN)),
        ] {
            flow::set_traffic_shaping_generator(c, k, Box::new(gen)).unwrap();
        }
        cb::set_circuit_breaker_generator(
            cb::BreakerStrategy::Custom(CUSTOM_WITH_GEN),
            Box::new(|rule: Arc<cb::Rule>, _| -> Arc<dyn cb::CircuitBreakerTrait> { Arc::new(cb::ErrorCountBreaker::new(rule)) }),
        )
        .unwrap();
    });
}

fn gen_rule(rng: &mut Rng, res: &str, seen_ref: &str) -> AnyRule {
    match rng.below(5) {
        0 => {
            let calc = *rng.pick(&[
                flow::CalculateStrategy::Direct,
                flow::CalculateStrategy::Direct,
                flow::CalculateStrategy::WarmUp,
                flow::CalculateStrategy::MemoryAdaptive,
                flow::CalculateStrategy::Custom(CUSTOM_WITH_GEN),
                flow::CalculateStrategy::Custom(CUSTOM_NO_GEN),
            ]);
            let ctrl = *rng.pick(&[
                flow::ControlStrategy::Reject,
                flow::ControlStrategy::Reject,
                flow::ControlStrategy::Throttling,
                flow::ControlStrategy::Custom(CUSTOM_WITH_GEN),
                flow::ControlStrategy::Custom(CUSTOM_NO_GEN),
            ]);
            let (rel, refres) = match rng.below(6) {
                0 => (flow::RelationStrategy::Associated, seen_ref.to_string()),
                1 => (flow::RelationStrategy::Associated, fresh_name("never-seen")),
                2 => (flow::RelationStrategy::Associated, String::new()),
                _ => (flow::RelationStrategy::Current, String::new()),
            };
            let total_mem = sentinel_core::system_metric::get_total_memory_size();
            AnyRule::Flow(flow::Rule {
                resource: if rng.chance(1, 15) { String::new() } else { res.to_string() },
                ref_resource: refres,
                calculate_strategy: calc,
                control_strategy: ctrl,
                relation_strategy: rel,
                threshold: *rng.pick(&[0.0, 0.5, 1.0, 3.0, 1e6, -1.0, f64::NAN]),
                warm_up_period_sec: *rng.pick(&[0u32, 1, 20]),
                warm_up_cold_factor: *rng.pick(&[0u32, 1, 2, 3, 10]),
                max_queueing_time_ms: *rng.pick(&[0u32, 1, 2000]),
                stat_interval_ms: *rng.pick(&[0u32, 1, 500, 1000, 1500, 10_000, 600_000]),
                low_mem_usage_threshold: *rng.pick(&[0u64, 1000, 10]),
                high_mem_usage_threshold: *rng.pick(&[0u64, 100, 2000]),
                mem_low_water_mark: *rng.pick(&[0u64, 1024, total_mem]),
                mem_high_water_mark: *rng.pick(&[0u64, 2048, total_mem, total_mem.saturating_add(1)]),
                ..Default::default()
            })
        }
        1 => AnyRule::Iso(isolation::Rule {
            resource: if rng.chance(1, 8) { String::new() } else { res.to_string() },
            threshold: *rng.pick(&[0u32, 1, 2, 1_000_000]),
            ..Default::default()
        }),
        2 => {
            let mut overrides = HashMap::new();
            for _ in 0..rng.below(3) {
                overrides.insert((*rng.pick(&["a", "b", ""])).to_string(), *rng.pick(&[0u64, 1, 1_000_000]));
            }
            AnyRule::Hot(hotspot::Rule {
                resource: if rng.chance(1, 15) { String::new() } else { res.to_string() },
                metric_type: *rng.pick(&[hotspot::MetricType::Concurrency, hotspot::MetricType::QPS, hotspot::MetricType::QPS]),
                control_strategy: *rng.pick(&[
                    hotspot::ControlStrategy::Reject,
                    hotspot::ControlStrategy::Throttling,
                    hotspot::ControlStrategy::Custom(CUSTOM_NO_GEN),
                ]),
                param_index: rng.range(0, 6) as isize - 3,
                param_key: (*rng.pick(&["", "", "k", " "])).to_string(),
                threshold: *rng.pick(&[0u64, 1, 2, 1_000_000]),
                max_queueing_time_ms: *rng.pick(&[0u64, 1, 2000]),
                burst_count: *rng.pick(&[0u64, 5, 1_000_000]),
                duration_in_sec: *rng.pick(&[0u64, 1, 3, 600]),
                params_max_capacity: *rng.pick(&[0usize, 1, 2, 100]),
                specific_items: overrides,
                ..Default::default()
            })
        }
        3 => {
            // bucket counts derived from the interval as well (every divisor of the interval is a valid count,
            // up to one bucket per millisecond)
            let iv = *rng.pick(&[0u32, 1, 7, 150, 999, 1000, 1250, 1500, 10_000, 600_000]);
            let bc = *rng.pick(&[0u32, 1, 3, 7, 125, 200, 1000, 600_001, iv, iv / 2, iv / 5, iv / 10, iv / 3]);
            // (a ring of several 100 000 buckets is legal but only slow: keep derived counts <= 10 000)
            let bc = if bc > 10_000 && bc != 600_001 { bc / 100 } else { bc };
            AnyRule::Cb(cb::Rule {
            resource: if rng.chance(1, 15) { String::new() } else { res.to_string() },
            strategy: *rng.pick(&[
                cb::BreakerStrategy::SlowRequestRatio,
                cb::BreakerStrategy::ErrorRatio,
                cb::BreakerStrategy::ErrorCount,
                cb::BreakerStrategy::Custom(CUSTOM_WITH_GEN),
                cb::BreakerStrategy::Custom(CUSTOM_NO_GEN),
            ]),
            retry_timeout_ms: *rng.pick(&[0u32, 1, 1000, 600_000]),
            min_request_amount: *rng.pick(&[0u64, 1, 1_000_000]),
            stat_interval_ms: iv,
            stat_sliding_window_bucket_count: bc,
            max_allowed_rt_ms: *rng.pick(&[0u64, 50, 1_000_000]),
            threshold: *rng.pick(&[0.0, 0.5, 1.0, 1.5, 3.0, 1e6, -1.0, f64::NAN]),
            ..Default::default()
        })
        }
        _ => AnyRule::Sys(system::Rule {
            metric_type: *rng.pick(&[
                system::MetricType::Load,
                system::MetricType::AvgRT,
                system::MetricType::Concurrency,
                system::MetricType::InboundQPS,
                system::MetricType::CpuUsage,
            ]),
            threshold: *rng.pick(&[-1.0, 0.0, 0.5, 1.0, 100.0, 101.0, 1e6, f64::NAN]),
            strategy: *rng.pick(&[system::AdaptiveStrategy::NoAdaptive, system::AdaptiveStrategy::BBR]),
            ..Default::default()
        }),
    }
}

/// load through entry point `how` (0 load_rules, 1 load_rules_of_resource, 2 append_rule)
fn load(rule: &AnyRule, how: u64, res: &String) {
    match rule {
        AnyRule::Flow(r) => match how {
            0 => {
                flow::load_rules(vec![Arc::new(r.clone())]);
            }
            1 => {
                let _ = flow::load_rules_of_resource(res, vec![Arc::new(r.clone())]);
            }
            _ => {
                flow::append_rule(Arc::new(r.clone()));
            }
        },
        AnyRule::Iso(r) => match how {
            0 => isolation::load_rules(vec![Arc::new(r.clone())]),
            1 => {
                let _ = isolation::load_rules_of_resource(res, vec![Arc::new(r.clone())]);
            }
            _ => {
                isolation::append_rule(Arc::new(r.clone()));
            }
        },
        AnyRule::Hot(r) => match how {
            0 => {
                hotspot::load_rules(vec![Arc::new(r.clone())]);
            }
            1 => {
                let _ = hotspot::load_rules_of_resource(res, vec![Arc::new(r.clone())]);
            }
            _ => {
                hotspot::append_rule(Arc::new(r.clone()));
            }
        },
        AnyRule::Cb(r) => match how {
            0 => {
                cb::load_rules(vec![Arc::new(r.clone())]);
            }
            1 => {
                let _ = cb::load_rules_of_resource(res, vec![Arc::new(r.clone())]);
            }
            _ => {
                cb::append_rule(Arc::new(r.clone()));
            }
        },
        AnyRule::Sys(r) => match how {
            0 | 1 => system::load_rules(vec![Arc::new(r.clone())]),
            _ => {
                system::append_rule(Arc::new(r.clone()));
            }
        },
    }
}

fn edge_load_res(fam: &str, res: &String, _x: Option<()>) {
    match fam {
        "flow" => {
            let _ = flow::load_rules_of_resource(res, vec![]);
        }
        "isolation" => {
            let _ = isolation::load_rules_of_resource(res, vec![]);
        }
        "hotspot" => {
            let _ = hotspot::load_rules_of_resource(res, vec![]);
        }
        "circuitbreaker" => {
            let _ = cb::load_rules_of_resource(res, vec![]);
        }
        _ => system::load_rules(vec![]),
    }
}

fn edge_load_all_empty(fam: &str) {
    match fam {
        "flow" => {
            flow::load_rules(vec![]);
        }
        "isolation" => isolation::load_rules(vec![]),
        "hotspot" => {
            hotspot::load_rules(vec![]);
        }
        "circuitbreaker" => {
            cb::load_rules(vec![]);
        }
        _ => system::load_rules(vec![]),
    }
}

fn edge_clear_res(fam: &str, res: &String) {
    match fam {
        "flow" => flow::clear_rules_of_resource(res),
        "isolation" => isolation::clear_rules_of_resource(res),
        "hotspot" => hotspot::clear_rules_of_resource(res),
        "circuitbreaker" => cb::clear_rules_of_resource(res),
        _ => system::clear_rules(),
    }
}

fn active_ids(fam: &str) -> Vec<String> {
    match fam {
        "flow" => flow::get_rules().iter().map(|r| r.id.clone()).collect(),
        "isolation" => isolation::get_rules().iter().map(|r| r.id.clone()).collect(),
        "hotspot" => hotspot::get_rules().iter().map(|r| r.id.clone()).collect(),
        "circuitbreaker" => cb::get_rules().iter().map(|r| r.id.clone()).collect(),
        _ => system::get_rules().iter().map(|r| r.id.clone()).collect(),
    }
}

fn clear_all() {
    flow::clear_rules();
    isolation::clear_rules();
    hotspot::clear_rules();
    cb::clear_rules();
    system::clear_rules();
}

/// every manager must still answer queries, accept updates and serve entries
fn health_probe() -> Result<(), String> {
    let res = fresh_name("c12-health");
    common::catch(|| {
        let _ = flow::get_rules();
        let _ = isolation::get_rules();
        let _ = hotspot::get_rules();
        let _ = cb::get_rules();
        let _ = system::get_rules();
        flow::load_rules_of_resource(&res, vec![Arc::new(flow::Rule { resource: res.clone(), threshold: 1.0, ..Default::default() })]).unwrap();
        isolation::load_rules_of_resource(&res, vec![Arc::new(isolation::Rule { resource: res.clone(), threshold: 5, ..Default::default() })]).unwrap();
        hotspot::load_rules_of_resource(&res, vec![Arc::new(hotspot::Rule { resource: res.clone(), threshold: 5, params_max_capacity: 4, ..Default::default() })]).unwrap();
        cb::load_rules_of_resource(&res, vec![Arc::new(cb::Rule { resource: res.clone(), strategy: cb::BreakerStrategy::ErrorCount, threshold: 5.0, stat_interval_ms: 1000, retry_timeout_ms: 1000, ..Default::default() })]).unwrap();
        system::append_rule(Arc::new(system::Rule { metric_type: system::MetricType::Load, threshold: 1.0, ..Default::default() }));
        let n = (flow::get_rules_of_resource(&res).len(), isolation::get_rules_of_resource(&res).len(), hotspot::get_rules_of_resource(&res).len(), cb::get_rules_of_resource(&res).len(), system::get_rules().len());
        assert_eq!(n, (1, 1, 1, 1, 1), "rules loaded on a healthy manager");
        let e = EntryBuilder::new(res.clone()).with_args(Some(vec!["x".into()])).build().expect("first entry on an unrelated resource");
        e.exit();
        assert!(EntryBuilder::new(res.clone()).build().is_err(), "flow rule of the health probe is enforced");
        flow::clear_rules_of_resource(&res);
        isolation::clear_rules_of_resource(&res);
        hotspot::clear_rules_of_resource(&res);
        cb::clear_rules_of_resource(&res);
        system::clear_rules();
    })
}

struct Outcome {
    sig: Option<String>,
    violation: Option<(String, String)>,
    poisoned: bool,
    entries: u64,
}

fn run_case(rng: &mut Rng) -> (Outcome, Value) {
    let res = fresh_name("c12");
    let seen = fresh_name("c12-seen");
    let mut out = Outcome { sig: None, violation: None, poisoned: false, entries: 0 };
    // the "seen" resource has traffic history
    if let Ok(e) = EntryBuilder::new(seen.clone()).build() {
        e.exit();
    }
    let rule = gen_rule(rng, &res, &seen);
    let how = rng.below(3);
    let how_name = ["load_rules", "load_rules_of_resource", "append_rule"][how as usize];
    let fam = rule.family();
    let valid = rule.is_valid();
    let mut case = json!({"family": fam, "rule": rule.describe(), "valid": valid, "entry_point": how_name});
    macro_rules! fail {
        ($sig:expr, $detail:expr, $poison:expr) => {{
            out.violation = Some(($sig, $detail));
            out.poisoned = $poison;
            return (out, case);
        }};
    }
    PROGRESS.fetch_add(1, Ordering::SeqCst);
    if let Err(p) = common::catch(|| load(&rule, how, &res)) {
        fail!(format!("panic/{fam}/{how_name}/{}/{}", if valid { "valid-rule" } else { "invalid-rule" }, common::panic_site(&p)), format!("{how_name} panicked: {p}"), true);
    }
    // ---- edge calls of the management API around the rule (empty lists, unknown and
    // empty resource names, repeated calls): refused or ignored, never a panic or a stall
    let edge = rng.below(9);
    let edge_name = ["none", "load_rules_of_resource(res, [])", "load_rules([])", "clear_rules_of_resource(unknown)", "load_rules_of_resource(\"\", [rule])", "same call again", "clear_rules_of_resource(res) twice", "load_rules_of_resource(other, [])", "clear_rules twice"][edge as usize];
    PROGRESS.fetch_add(1, Ordering::SeqCst);
    let unknown = fresh_name("c12-unknown");
    let edge_result = common::catch(|| match edge {
        1 => edge_load_res(fam, &res, None),
        2 => edge_load_all_empty(fam),
        3 => edge_clear_res(fam, &unknown),
        4 => load(&rule, 1, &String::new()),
        5 => load(&rule, how, &res),
        6 => {
            edge_clear_res(fam, &res);
            edge_clear_res(fam, &res);
        }
        7 => edge_load_res(fam, &unknown, None),
        8 => {
            clear_all();
            clear_all();
        }
        _ => {}
    });
    if let Err(p) = edge_result {
        fail!(format!("panic/{fam}/edge-call/{}", common::panic_site(&p)), format!("{edge_name} panicked: {p}"), true);
    }
    // after clearing calls the rule is legitimately gone
    let cleared = matches!(edge, 1 | 2 | 6 | 8);
    let active = match common::catch(|| active_ids(fam)) {
        Ok(a) => a,
        Err(p) => fail!(format!("panic/{fam}/get_rules/{}", common::panic_site(&p)), p, true),
    };
    case["edge_call"] = json!(edge_name);
    let _ = cleared;
    if !valid && active.contains(&rule.id()) {
        fail!(format!("invalid-rule-active/{fam}/{how_name}"), "a rule refused by is_valid() is reported by get_rules()".to_string(), false);
    }
    // entries against the rule
    let batches = [0u32, 1, 1, 1_000_000];
    // hotspot rules keep per-value state in a bounded cache: longer histories with more values than
    // the cache holds (legal: params_max_capacity 1 or 2) and exits in any order
    let nent = if fam == "hotspot" && rng.chance(1, 2) { 4 + rng.below(9) } else { 2 + rng.below(5) };
    let mut open = vec![];
    for k in 0..nent {
        let batch = *rng.pick(&batches);
        let args: Option<Vec<String>> = match rng.below(4) {
            0 => None,
            1 => Some(vec![]),
            2 => Some(vec![(*rng.pick(&["a", "b", "c"])).to_string()]),
            _ => Some(vec!["a".into(), "b".into(), "".into(), "d".into(), "a".into()]),
        };
        let att: Option<HashMap<String, String>> = if rng.chance(1, 3) {
            let mut m = HashMap::new();
            m.insert("k".to_string(), (*rng.pick(&["a", "b", "c"])).to_string());
            Some(m)
        } else {
            None
        };
        let inbound = rng.chance(1, 2);
        let target = if rng.chance(1, 12) { String::new() } else { res.clone() };
        PROGRESS.fetch_add(1, Ordering::SeqCst);
        let r = common::catch(|| {
            EntryBuilder::new(target)
                .with_batch_count(batch)
                .with_traffic_type(if inbound { TrafficType::Inbound } else { TrafficType::Outbound })
                .with_args(args.clone())
                .with_attachments(att.clone())
                .build()
        });
        out.entries += 1;
        match r {
            Err(p) => fail!(
                format!("panic/{fam}/build/{}/{}", if valid { "valid-rule" } else { "invalid-rule" }, common::panic_site(&p)),
                format!("entry #{k} (batch {batch}, args {args:?}, attachments {att:?}) panicked: {p}"),
                true
            ),
            Ok(Ok(e)) => open.push(e),
            Ok(Err(_)) => {}
        }
        VClock::advance_ms(*rng.pick(&[0u64, 1, 600, 1500]));
        if rng.chance(1, 2) && !open.is_empty() {
            let e = open.remove(rng.below(open.len() as u64) as usize);
            if rng.chance(1, 3) {
                e.set_err(sentinel_core::Error::msg("biz"));
            }
            PROGRESS.fetch_add(1, Ordering::SeqCst);
            if let Err(p) = common::catch(|| e.exit()) {
                fail!(format!("panic/{fam}/exit/{}", common::panic_site(&p)), format!("exit panicked: {p}"), true);
            }
        }
    }
    for e in open {
        if let Err(p) = common::catch(|| e.exit()) {
            fail!(format!("panic/{fam}/exit/{}", common::panic_site(&p)), format!("exit panicked: {p}"), true);
        }
    }
    // hotspot rules keep per-value state in a bounded cache: churn it with more distinct values than a
    // small (legal) params_max_capacity holds, several entries open at once, exits in any order
    if let AnyRule::Hot(ref h) = rule {
        if valid && !cleared && rng.chance(1, 2) {
            let mut open = vec![];
            for k in 0..(6 + rng.below(10)) {
                let v = (*rng.pick(&["a", "b", "c", "d"])).to_string();
                let mut args = vec!["x".to_string(); 4];
                let idx = if h.param_index >= 0 { h.param_index as usize } else { (4 + h.param_index).max(0) as usize };
                if idx < 4 {
                    args[idx] = v.clone();
                }
                let mut m = HashMap::new();
                if !h.param_key.is_empty() {
                    m.insert(h.param_key.clone(), v.clone());
                }
                PROGRESS.fetch_add(1, Ordering::SeqCst);
                let r = common::catch(|| EntryBuilder::new(res.clone()).with_args(Some(args.clone())).with_attachments(Some(m.clone())).build());
                out.entries += 1;
                match r {
                    Err(p) => fail!(
                        format!("panic/{fam}/build/valid-rule/{}", common::panic_site(&p)),
                        format!("cache churn: entry #{k} for value {v:?} (args {args:?}, attachments {m:?}) panicked: {p}"),
                        true
                    ),
                    Ok(Ok(e)) => open.push(e),
                    Ok(Err(_)) => {}
                }
                while open.len() > 3 || (!open.is_empty() && rng.chance(1, 3)) {
                    let e = open.remove(rng.below(open.len() as u64) as usize);
                    if let Err(p) = common::catch(|| e.exit()) {
                        fail!(format!("panic/{fam}/exit/{}", common::panic_site(&p)), format!("cache churn: exit panicked: {p}"), true);
                    }
                }
            }
            for e in open {
                if let Err(p) = common::catch(|| e.exit()) {
                    fail!(format!("panic/{fam}/exit/{}", common::panic_site(&p)), format!("cache churn: exit panicked: {p}"), true);
                }
            }
        }
    }
    if let Err(p) = common::catch(clear_all) {
        fail!(format!("panic/{fam}/clear_rules/{}", common::panic_site(&p)), p, true);
    }
    PROGRESS.fetch_add(1, Ordering::SeqCst);
    if let Err(p) = health_probe() {
        fail!(format!("unusable-after/{fam}/{how_name}/{}", common::panic_site(&p)), format!("health probe failed after the case: {p}"), true);
    }
    out.sig = Some(format!("{}|{}|{}|edge{}", rule.class(), if valid { "valid" } else { "invalid" }, how_name, (edge > 0) as u8));
    (out, case)
}

fn main() {
    let opts = Opts::parse();
    common::install_panic_capture();
    common::install_logger();
    let rep = Arc::new(Mutex::new(Report::new("C12", &opts)));
    VClock::install(T0_MS + 5_000_000_000 * (1 + opts.shard));
    register_generators();
    let thorough = opts.thorough();
    let ncases: u64 = if thorough { 200_000 } else { 20_000 };
    let only: Option<u64> = opts.flag("only").map(|s| s.parse().unwrap());
    let from: u64 = only.or(opts.flag("from").map(|s| s.parse().unwrap())).unwrap_or(0);
    let to = only.map(|o| o + 1).unwrap_or(ncases);
    let current = Arc::new(AtomicU64::new(from));

    // watchdog: a case that makes no progress for a long time becomes a suspect
    {
        let rep = rep.clone();
        let current = current.clone();
        let limit_s = if only.is_some() { 30 } else { 15 };
        std::thread::spawn(move || {
            let mut last = (u64::MAX, 0u64);
            let mut since = std::time::Instant::now();
            // Wall-clock alone is no verdict on a loaded machine: the case thread (the main thread) must
            // also have been asleep (blocked on a lock: deadlock) in nearly every sample, or have burnt
            // CPU for most of the period (busy loop). A runnable but starved thread is neither.
            let main_stat = format!("/proc/self/task/{}/stat", std::process::id());
            let sample = || -> Option<(char, u64)> {
                let txt = std::fs::read_to_string(&main_stat).ok()?;
                let rest = &txt[txt.rfind(')')? + 2..];
                let f: Vec<&str> = rest.split_whitespace().collect();
                Some((f.first()?.chars().next()?, f.get(11)?.parse::<u64>().ok()? + f.get(12)?.parse::<u64>().ok()?))
            };
            let (mut samples, mut asleep, mut cpu0) = (0u64, 0u64, sample().map(|x| x.1).unwrap_or(0));
            loop {
                std::thread::sleep(std::time::Duration::from_millis(500));
                let now = (current.load(Ordering::SeqCst), PROGRESS.load(Ordering::SeqCst));
                let st = sample();
                if now != last {
                    last = now;
                    since = std::time::Instant::now();
                    samples = 0;
                    asleep = 0;
                    cpu0 = st.map(|x| x.1).unwrap_or(cpu0);
                    continue;
                }
                samples += 1;
                if matches!(st, Some(('S', _)) | Some(('D', _))) {
                    asleep += 1;
                }
                let cpu_s = st.map(|x| x.1.saturating_sub(cpu0)).unwrap_or(0) / 100;
                let blocked = asleep * 10 >= samples * 9;
                let busy = cpu_s * 10 >= limit_s * 6;
                // (without /proc the old wall-clock rule applies, 8x more patient)
                let hung = if st.is_some() { blocked || busy } else { since.elapsed().as_secs() >= 8 * limit_s };
                if since.elapsed().as_secs() >= limit_s && hung {
                    let mut r = match rep.try_lock() {
                        Ok(r) => r,
                        Err(_) => std::process::exit(9),
                    };
                    let idx = now.0;
                    if only.is_some() {
                        r.violation("hang/reproduced-alone", format!("case {idx} made no progress for {limit_s} s, also when run alone"), json!({"case_index": idx}));
                    } else {
                        r.extra.insert("suspects".into(), json!([idx]));
                        r.extra.insert("resume_from".into(), json!(idx + 1));
                    }
                    let rr = std::mem::replace(&mut *r, Report::new("C12", &Opts::parse()));
                    rr.finish();
                }
            }
        });
    }

    for i in from..to {
        current.store(i, Ordering::SeqCst);
        if rep.lock().unwrap().over_budget() {
            break;
        }
        let mut rng = Rng::new(opts.seed.wrapping_mul(0x51ED).wrapping_add(opts.shard * 1_000_003).wrapping_add(i * 7919).wrapping_add(thorough as u64));
        VClock::advance_ms(20_000);
        let (o, mut case) = run_case(&mut rng);
        case["case_index"] = json!(i);
        let mut r = rep.lock().unwrap();
        r.count("entries", o.entries);
        r.case(o.sig.clone(), || case.clone());
        if let Some((sig, detail)) = o.violation {
            r.violation(&sig, detail, case);
        }
        if o.poisoned && only.is_none() {
            r.extra.insert("resume_from".into(), json!(i + 1));
            let rr = std::mem::replace(&mut *r, Report::new("C12", &opts));
            rr.finish();
        }
        if i % 200 == 199 {
            sentinel_core::stat::reset_resource_map();
        }
    }
    let rr = std::mem::replace(&mut *rep.lock().unwrap(), Report::new("C12", &opts));
    rr.finish()
}
