//! C06 — hotspot QPS limiting is a per-parameter token bucket with no cross-talk.
//!
//! Monitor: generated arrival histories through EntryBuilder::with_args /
//! with_attachments under the virtual clock. Oracles: (a) the cumulative
//! envelope of the statement; (b) a clean-room lazily refilled bucket per value: a
//! rejection is justified only if that bucket is short (or the threshold is 0 /
//! the batch exceeds the capacity);
//! (c) metamorphic non-interference: the decisions for one value equal those of
//! its projected history replayed alone; (d) an override changes only its value.

use common::{fresh_name, Opts, Report, Rng, T0_MS};
use sentinel_core::{hotspot, EntryBuilder};
use seq::*;
use serde_json::{json, Value};
use std::collections::HashMap;
use std::sync::Arc;

#[derive(Clone, Debug)]
struct Case {
    q: u64,
    b: u64,
    d: u64,
    overrides: Vec<(String, u64)>,
    keyed: bool,
    index: isize,
    capacity: usize,
    t0: u64,
    /// (gap ms, value, batch)
    reqs: Vec<(u64, String, u32)>,
}

impl Case {
    fn to_json(&self) -> Value {
        json!({"q": self.q, "b": self.b, "d_sec": self.d, "overrides": self.overrides, "keyed": self.keyed,
               "index": self.index, "capacity": self.capacity, "t0": self.t0, "reqs": self.reqs})
    }
    fn limit(&self, v: &str) -> u64 {
        self.overrides.iter().find(|(k, _)| k == v).map(|x| x.1).unwrap_or(self.q)
    }
}

// parameter values are plain strings: the empty string and a blank are values like any other
const VALUES: &[&str] = &["a", "", "c", " "];

fn gen_case(rng: &mut Rng, base: u64, long: bool) -> Case {
    let q = *rng.pick(&[0u64, 1, 1, 2, 3, 5, 10]);
    let b = *rng.pick(&[0u64, 0, 1, 2, 5]);
    let d = rng.range(1, 3);
    let nvals = rng.range(1, 4) as usize;
    let mut overrides = vec![];
    if rng.chance(1, 2) {
        for _ in 0..rng.range(1, 2) {
            let v = VALUES[rng.below(nvals as u64) as usize].to_string();
            if !overrides.iter().any(|(k, _): &(String, u64)| *k == v) {
                overrides.push((v, *rng.pick(&[0u64, 1, 2, 4, 7])));
            }
        }
    }
    let dm = d * 1000;
    let gaps = [0u64, 0, 0, 1, 10, dm / 2, dm - 1, dm, dm + 1, 2 * dm + 1, 5 * dm];
    let n = if long { 30 + rng.below(150) } else { 10 + rng.below(60) } as usize;
    let mut reqs = vec![];
    for _ in 0..n {
        let gap = if rng.chance(3, 4) { *rng.pick(&gaps) } else { rng.below(3 * dm) };
        reqs.push((
            gap,
            VALUES[rng.below(nvals as u64) as usize].to_string(),
            *rng.pick(&[1u32, 1, 1, 1, 2, 3, 6]),
        ));
    }
    Case {
        q,
        b,
        d,
        overrides,
        keyed: rng.chance(1, 3),
        index: *rng.pick(&[0isize, 0, 1, -1]),
        // the default capacity (4000 x d entries) is exercised in 1 of 10 cases: building it is slow
        capacity: if rng.chance(1, 10) { 0 } else { *rng.pick(&[4usize, 16, 64]) },
        t0: base,
        reqs,
    }
}

/// run a history against a fresh rule on a fresh resource; returns per request Ok(())/Err(text)
fn execute(case: &Case, overrides: &[(String, u64)], only: Option<&str>) -> Vec<Option<Result<(), String>>> {
    let res = fresh_name("c06");
    let rule = Arc::new(hotspot::Rule {
        resource: res.clone(),
        metric_type: hotspot::MetricType::QPS,
        control_strategy: hotspot::ControlStrategy::Reject,
        param_index: if case.keyed { 0 } else { case.index },
        param_key: if case.keyed { "user".into() } else { String::new() },
        threshold: case.q,
        burst_count: case.b,
        duration_in_sec: case.d,
        specific_items: overrides.iter().cloned().collect(),
        params_max_capacity: case.capacity,
        ..Default::default()
    });
    hotspot::load_rules_of_resource(&res, vec![rule]).unwrap();
    let mut t = case.t0;
    let mut out = Vec::with_capacity(case.reqs.len());
    for (gap, v, batch) in &case.reqs {
        t += gap;
        if let Some(o) = only {
            if o != v {
                out.push(None);
                continue;
            }
        }
        VClock::set_ms(t);
        let mut b = EntryBuilder::new(res.clone()).with_batch_count(*batch);
        if case.keyed {
            let mut m = HashMap::new();
            m.insert("user".to_string(), v.clone());
            // a positional list that must be ignored because the key has priority
            b = b.with_attachments(Some(m)).with_args(Some(vec!["zzz".into()]));
        } else {
            let args = match case.index {
                0 => vec![v.clone(), "x".into()],
                1 => vec!["x".into(), v.clone()],
                _ => vec!["x".into(), "y".into(), v.clone()],
            };
            b = b.with_args(Some(args));
        }
        match b.build() {
            Ok(e) => {
                e.exit();
                out.push(Some(Ok(())));
            }
            Err(e) => out.push(Some(Err(e.to_string()))),
        }
    }
    let _ = hotspot::load_rules_of_resource(&res, vec![]);
    out
}

#[derive(Default, Clone)]
struct Buckets {
    first: Option<u64>,
    admitted: u64,
    // lazily refilled bucket (refill only after a gap longer than d, integer tokens)
    lazy_tokens: u64,
    lazy_last: u64,
    created: bool,
}

struct Outcome {
    sig: Option<String>,
    violation: Option<(String, String)>,
    decisions: u64,
    divergence: u64,
}

fn run_case(case: &Case) -> Outcome {
    let mut out = Outcome {
        sig: None,
        violation: None,
        decisions: 0,
        divergence: 0,
    };
    let mixed = execute(case, &case.overrides, None);
    let dm = case.d * 1000;
    let mut st: HashMap<String, Buckets> = HashMap::new();
    let mut t = case.t0;
    let (mut rej, mut refill_admit, mut batchy, mut gap_eq_d, mut gap_d1) = (0u32, 0u32, 0u32, 0u32, 0u32);
    for (i, (gap, v, batch)) in case.reqs.iter().enumerate() {
        t += gap;
        out.decisions += 1;
        let qv = case.limit(v);
        let cap = qv + case.b;
        let n = *batch as u64;
        let s = st.entry(v.clone()).or_default();
        let admitted = matches!(mixed[i], Some(Ok(())));
        let must_reject = qv == 0 || n > cap;
        if s.first.is_none() {
            s.first = Some(t); // for the envelope: the value's first request of any kind
        }
        // the value's bucket comes into existence (full) with the first request that
        // is not refused outright (threshold 0 / batch above capacity)
        let first_time = !s.created && !must_reject;
        if first_time {
            s.created = true;
            s.lazy_tokens = cap;
            s.lazy_last = t;
        }
        // lazy bucket: what it would hold for this request
        let lgap = t - s.lazy_last;
        let lazy_avail = if !first_time && lgap > dm {
            (s.lazy_tokens + lgap * qv / dm).min(cap)
        } else {
            s.lazy_tokens
        };
        if lgap == dm && !first_time {
            gap_eq_d += 1;
        }
        if lgap == dm + 1 && !first_time {
            gap_d1 += 1;
        }
        if n > 1 {
            batchy += 1;
        }
        if admitted {
            if must_reject {
                out.violation = Some((
                    "admitted/zero-threshold-or-batch-over-capacity".into(),
                    format!("req#{i} value {v} batch {n}: admitted with q_v={qv}, capacity {cap}"),
                ));
                break;
            }
            s.admitted += n;
            let bound = cap as f64 + qv as f64 * (t - s.first.unwrap()) as f64 / dm as f64;
            if s.admitted as f64 > bound + 1e-9 {
                out.violation = Some((
                    "envelope/exceeded".into(),
                    format!("value {v}: {} tokens admitted up to +{} ms, bound q+b+q(t-first)/d = {bound:.3}", s.admitted, t - case.t0),
                ));
                break;
            }
            if lazy_avail < n {
                out.divergence += 1; // more generous than the lazy reading, still within the capped bucket
            }
            if !first_time && lgap > dm {
                refill_admit += 1;
                s.lazy_last = t;
            }
            s.lazy_tokens = lazy_avail.saturating_sub(n);
        } else {
            rej += 1;
            let txt = match &mixed[i] {
                Some(Err(t)) => t.clone(),
                _ => String::new(),
            };
            if !must_reject && lazy_avail >= n {
                out.violation = Some((
                    "rejected/although-tokens-remain".into(),
                    format!("req#{i} t=+{} value {v} batch {n}: rejected although the value's bucket holds {lazy_avail} tokens (q_v={qv}, b={}, gap since refill {lgap} ms)", t - case.t0, case.b),
                ));
                break;
            }
            if err_block_type(&txt).as_deref() != Some("HotSpotParamFlow") {
                out.violation = Some(("report/block-type".into(), format!("reported as {:?}", err_block_type(&txt))));
                break;
            }
        }
    }
    // (c) non-interference: replay each value alone
    let values: Vec<String> = {
        let mut v: Vec<String> = case.reqs.iter().map(|r| r.1.clone()).collect();
        v.sort();
        v.dedup();
        v
    };
    if out.violation.is_none() && values.len() > 1 {
        for v in &values {
            let alone = execute(case, &case.overrides, Some(v));
            for (i, r) in alone.iter().enumerate() {
                if let Some(r) = r {
                    let a = r.is_ok();
                    let m = matches!(mixed[i], Some(Ok(())));
                    if a != m {
                        out.violation = Some((
                            "crosstalk/decision-depends-on-other-values".into(),
                            format!("req#{i} value {v}: {} in the mixed history, {} when the value's requests run alone", if m { "admitted" } else { "rejected" }, if a { "admitted" } else { "rejected" }),
                        ));
                        break;
                    }
                }
            }
            if out.violation.is_some() {
                break;
            }
        }
    }
    // (d) an override replaces q for its value only
    if out.violation.is_none() && !case.overrides.is_empty() {
        let plain = execute(case, &[], None);
        for (i, (_, v, _)) in case.reqs.iter().enumerate() {
            if case.overrides.iter().any(|(k, _)| k == v) {
                continue;
            }
            let a = matches!(plain[i], Some(Ok(())));
            let m = matches!(mixed[i], Some(Ok(())));
            if a != m {
                out.violation = Some((
                    "override/changes-another-value".into(),
                    format!("req#{i} value {v} (no override): {} with overrides {:?}, {} without", if m { "admitted" } else { "rejected" }, case.overrides, if a { "admitted" } else { "rejected" }),
                ));
                break;
            }
        }
    }
    if rej > 0 && refill_admit > 0 {
        out.sig = Some(format!(
            "q{}|b{}|d{}|v{}|ovr{}|key{}|idx{}|batch{}|eqd{}|d1{}",
            match case.q { 0 => 0, 1 => 1, 2..=3 => 2, _ => 3 },
            case.b.min(2),
            case.d,
            values.len(),
            case.overrides.len(),
            case.keyed as u8,
            case.index,
            (batchy > 0) as u8,
            (gap_eq_d > 0) as u8,
            (gap_d1 > 0) as u8
        ));
    }
    out
}

fn main() {
    let opts = Opts::parse();
    common::install_panic_capture();
    let mut rep = Report::new("C06", &opts);
    VClock::install(T0_MS);
    let mut rng = opts.rng();
    let thorough = opts.thorough();
    let ncases = if thorough { 100_000 } else { 10_000 };
    let mut base = T0_MS + 50_000_000 * (1 + opts.shard);
    for i in 0..ncases {
        if rep.over_budget() {
            break;
        }
        base += 1_000_000;
        let case = gen_case(&mut rng, base, thorough);
        let r = common::catch(|| run_case(&case));
        match r {
            Ok(o) => {
                rep.count("decisions", o.decisions);
                rep.count("admissions_beyond_lazy_bucket", o.divergence);
                rep.case(o.sig.clone(), || case.to_json());
                if let Some((sig, detail)) = o.violation {
                    rep.violation(&sig, detail, case.to_json());
                }
            }
            Err(p) => {
                rep.case(None, || Value::Null);
                rep.violation(&format!("panic/{}", common::panic_site(&p)), p, case.to_json());
            }
        }
        if i % 200 == 199 {
            sentinel_core::stat::reset_resource_map();
        }
    }
    rep.finish()
}
