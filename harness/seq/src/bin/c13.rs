//! C13 — slot chain contract: ordered run, block iff a check blocked, one notification.
//!
//! Monitor: custom chains of recording slots (every call appends to one log);
//! chain shapes up to 2 slots per kind are enumerated exhaustively (order values
//! with ties, every script assignment, every insertion order), larger shapes are
//! sampled. The oracle is the contract in the statement, applied to the call log.

use common::{fresh_name, Opts, Report, Rng};
use sentinel_core::base::{
    BaseSlot, BlockError, BlockType, EntryContext, RuleCheckSlot, SlotChain, StatPrepareSlot,
    StatSlot, TokenResult,
};
use sentinel_core::EntryBuilder;
use serde_json::{json, Value};
use std::sync::{Arc, Mutex};

#[derive(Clone, Debug, PartialEq)]
enum Ev {
    Prep(usize),
    Check(usize),
    Pass(usize),
    Blocked(usize, String, String),
    Completed(usize),
}

type Log = Arc<Mutex<Vec<Ev>>>;

struct Prep {
    id: usize,
    order: u32,
    log: Log,
}
impl BaseSlot for Prep {
    fn order(&self) -> u32 {
        self.order
    }
}
impl StatPrepareSlot for Prep {
    fn prepare(&self, _ctx: &mut EntryContext) {
        self.log.lock().unwrap().push(Ev::Prep(self.id));
    }
}

#[derive(Clone, Copy, Debug, PartialEq)]
enum Script {
    Pass,
    Block,
    Wait,
}

struct Check {
    id: usize,
    order: u32,
    script: Script,
    log: Log,
}
impl BaseSlot for Check {
    fn order(&self) -> u32 {
        self.order
    }
}
impl RuleCheckSlot for Check {
    fn check(&self, _ctx: &mut EntryContext) -> TokenResult {
        self.log.lock().unwrap().push(Ev::Check(self.id));
        match self.script {
            Script::Pass => TokenResult::new_pass(),
            Script::Block => TokenResult::new_blocked_with_msg(BlockType::Other(self.id as u8), format!("slot-{}", self.id)),
            Script::Wait => TokenResult::new_should_wait(0),
        }
    }
}

struct Stat {
    id: usize,
    order: u32,
    log: Log,
}
impl BaseSlot for Stat {
    fn order(&self) -> u32 {
        self.order
    }
}
impl StatSlot for Stat {
    fn on_entry_pass(&self, _ctx: &EntryContext) {
        self.log.lock().unwrap().push(Ev::Pass(self.id));
    }
    fn on_entry_blocked(&self, _ctx: &EntryContext, e: BlockError) {
        self.log.lock().unwrap().push(Ev::Blocked(self.id, format!("{}", e.block_type()), e.block_msg()));
    }
    fn on_completed(&self, _ctx: &mut EntryContext) {
        self.log.lock().unwrap().push(Ev::Completed(self.id));
    }
}

#[derive(Clone, Debug)]
struct Case {
    preps: Vec<u32>,
    checks: Vec<(u32, Script)>,
    stats: Vec<u32>,
    /// insertion order: (kind 0/1/2, index)
    insertion: Vec<(u8, usize)>,
}

impl Case {
    fn to_json(&self) -> Value {
        json!({"prepare_orders": self.preps, "checks": self.checks.iter().map(|(o, s)| json!([o, format!("{s:?}")])).collect::<Vec<_>>(),
               "stat_orders": self.stats, "insertion": self.insertion})
    }
}

fn nondecreasing(orders: &[u32]) -> bool {
    orders.windows(2).all(|w| w[0] <= w[1])
}

fn run_case(case: &Case) -> (Option<String>, Option<(String, String)>) {
    let log: Log = Arc::new(Mutex::new(Vec::new()));
    let mut sc = SlotChain::new();
    for (kind, i) in &case.insertion {
        match kind {
            0 => sc.add_stat_prepare_slot(Arc::new(Prep { id: *i, order: case.preps[*i], log: log.clone() })),
            1 => sc.add_rule_check_slot(Arc::new(Check { id: *i, order: case.checks[*i].0, script: case.checks[*i].1, log: log.clone() })),
            _ => sc.add_stat_slot(Arc::new(Stat { id: *i, order: case.stats[*i], log: log.clone() })),
        }
    }
    let r = EntryBuilder::new(fresh_name("c13")).with_slot_chain(Arc::new(sc)).build();
    let at_build: Vec<Ev> = log.lock().unwrap().clone();
    let blocked_ids: Vec<usize> = case.checks.iter().enumerate().filter(|(_, c)| c.1 == Script::Block).map(|(i, _)| i).collect();
    let expect_block = !blocked_ids.is_empty();
    let viol = |s: &str, d: String| (None, Some((s.to_string(), d)));
    // ---- phase structure of the log at build time
    let np = case.preps.len();
    let nc = case.checks.len();
    let ns = case.stats.len();
    if at_build.len() != np + nc + ns {
        // which kind is short?
        let p = at_build.iter().filter(|e| matches!(e, Ev::Prep(_))).count();
        let c = at_build.iter().filter(|e| matches!(e, Ev::Check(_))).count();
        let s = at_build.iter().filter(|e| matches!(e, Ev::Pass(_) | Ev::Blocked(..))).count();
        let what = if p != np { "prepare-slot-not-run-exactly-once" } else if c != nc { "check-slot-not-run-exactly-once" } else if s != ns { "stat-slot-not-notified-exactly-once" } else { "unexpected-call-at-entry" };
        return viol(&format!("calls/{what}"), format!("{} calls at entry, expected {} prepare + {} check + {} stat; log {:?}", at_build.len(), np, nc, ns, at_build));
    }
    let (pp, rest) = at_build.split_at(np);
    let (cc, ss) = rest.split_at(nc);
    let mut ids = vec![];
    for e in pp {
        match e {
            Ev::Prep(i) => ids.push(*i),
            _ => return viol("order/phase", format!("expected all prepare slots first, log {:?}", at_build)),
        }
    }
    let mut sorted = ids.clone();
    sorted.sort();
    sorted.dedup();
    if sorted.len() != np {
        return viol("calls/prepare-slot-not-run-exactly-once", format!("{:?}", at_build));
    }
    if !nondecreasing(&ids.iter().map(|i| case.preps[*i]).collect::<Vec<_>>()) {
        return viol("order/prepare-slots-not-ascending", format!("{:?}", at_build));
    }
    let mut ids = vec![];
    for e in cc {
        match e {
            Ev::Check(i) => ids.push(*i),
            _ => return viol("order/phase", format!("expected the check slots after the prepare slots, log {:?}", at_build)),
        }
    }
    let mut sorted = ids.clone();
    sorted.sort();
    sorted.dedup();
    if sorted.len() != nc {
        return viol("calls/check-slot-not-run-exactly-once", format!("{:?}", at_build));
    }
    if !nondecreasing(&ids.iter().map(|i| case.checks[*i].0).collect::<Vec<_>>()) {
        return viol("order/check-slots-not-ascending", format!("orders {:?} log {:?}", case.checks, at_build));
    }
    let mut ids = vec![];
    for e in ss {
        match e {
            Ev::Pass(i) => {
                if expect_block {
                    return viol("notify/pass-although-a-check-blocked", format!("{:?}", at_build));
                }
                ids.push(*i)
            }
            Ev::Blocked(i, bt, msg) => {
                if !expect_block {
                    return viol("notify/blocked-although-no-check-blocked", format!("{:?}", at_build));
                }
                if !blocked_ids.iter().any(|b| *msg == format!("slot-{b}") && *bt == format!("{b}")) {
                    return viol("notify/error-not-from-a-blocking-slot", format!("stat slot {i} got ({bt}, {msg}), blocking slots {blocked_ids:?}"));
                }
                ids.push(*i)
            }
            _ => return viol("order/phase", format!("expected the stat notifications last, log {:?}", at_build)),
        }
    }
    let mut sorted = ids.clone();
    sorted.sort();
    sorted.dedup();
    if sorted.len() != ns {
        return viol("calls/stat-slot-not-notified-exactly-once", format!("{:?}", at_build));
    }
    if !nondecreasing(&ids.iter().map(|i| case.stats[*i]).collect::<Vec<_>>()) {
        return viol("order/stat-slots-not-ascending", format!("orders {:?} log {:?}", case.stats, at_build));
    }
    // ---- verdict delivered to the caller
    match &r {
        Ok(_) if expect_block => return viol("verdict/admitted-although-a-check-blocked", format!("scripts {:?}", case.checks)),
        Err(e) if !expect_block => return viol("verdict/blocked-although-no-check-blocked", format!("scripts {:?}: {e}", case.checks)),
        Err(e) => {
            let txt = e.to_string();
            if !blocked_ids.iter().any(|b| txt.contains(&format!("block_msg: \"slot-{b}\"")) && txt.contains(&format!("block_type: Other({b})"))) {
                return viol("verdict/error-not-from-a-blocking-slot", format!("error {txt}; blocking slots {blocked_ids:?}"));
            }
        }
        _ => {}
    }
    // ---- exit once
    if let Ok(e) = r {
        e.exit();
    }
    let after: Vec<Ev> = log.lock().unwrap()[at_build.len()..].to_vec();
    if expect_block {
        if !after.is_empty() {
            return viol("completion/notified-for-a-blocked-entry", format!("{after:?}"));
        }
    } else {
        let mut ids = vec![];
        for e in &after {
            match e {
                Ev::Completed(i) => ids.push(*i),
                _ => return viol("completion/unexpected-call-at-exit", format!("{after:?}")),
            }
        }
        let mut sorted = ids.clone();
        sorted.sort();
        sorted.dedup();
        if sorted.len() != ns || ids.len() != ns {
            return viol("completion/not-exactly-once-per-stat-slot", format!("{} stat slots, completions {after:?}", ns));
        }
        if !nondecreasing(&ids.iter().map(|i| case.stats[*i]).collect::<Vec<_>>()) {
            return viol("order/completions-not-ascending", format!("{after:?}"));
        }
    }
    let ties = |v: &[u32]| {
        let mut s = v.to_vec();
        s.sort();
        s.windows(2).any(|w| w[0] == w[1])
    };
    let pos = if blocked_ids.is_empty() {
        "none".to_string()
    } else {
        // position of blocking slots in execution order
        let mut order: Vec<usize> = (0..nc).collect();
        order.sort_by_key(|i| case.checks[*i].0);
        let first = blocked_ids.iter().any(|b| case.checks[*b].0 == case.checks[order[0]].0);
        let last = blocked_ids.iter().any(|b| case.checks[*b].0 == case.checks[order[nc - 1]].0);
        format!("{}{}{}", if first { "F" } else { "" }, if last { "L" } else { "" }, blocked_ids.len().min(3))
    };
    let sig = format!(
        "p{np}c{nc}s{ns}|ties{}{}{}|block{pos}|wait{}",
        ties(&case.preps) as u8,
        ties(&case.checks.iter().map(|c| c.0).collect::<Vec<_>>()) as u8,
        ties(&case.stats) as u8,
        case.checks.iter().any(|c| c.1 == Script::Wait) as u8
    );
    (Some(sig), None)
}

const ORDERS: [u32; 4] = [0, 1, 5, 1000];

fn permutations(n: usize) -> Vec<Vec<usize>> {
    if n == 0 {
        return vec![vec![]];
    }
    let mut out = vec![];
    for p in permutations(n - 1) {
        for pos in 0..=p.len() {
            let mut q = p.clone();
            q.insert(pos, n - 1);
            out.push(q);
        }
    }
    out
}

fn main() {
    let opts = Opts::parse();
    common::install_panic_capture();
    let mut rep = Report::new("C13", &opts);
    let handle = |rep: &mut Report, case: &Case| {
        let r = common::catch(|| run_case(case));
        match r {
            Ok((sig, v)) => {
                rep.case(sig, || case.to_json());
                if let Some((s, d)) = v {
                    rep.violation(&s, d, case.to_json());
                }
            }
            Err(p) => {
                rep.case(None, || Value::Null);
                rep.violation(&format!("panic/{}", common::panic_site(&p)), p, case.to_json());
            }
        }
    };
    // ---- exhaustive: 0..=2 slots of each kind, all order values (ties included),
    // all scripts, all insertion orders within each kind (kinds are independent lists)
    let mut exhaustive = 0u64;
    let mut idx = 0u64;
    let orders_for = |n: usize| -> Vec<Vec<u32>> {
        match n {
            0 => vec![vec![]],
            1 => ORDERS.iter().map(|o| vec![*o]).collect(),
            _ => {
                let mut v = vec![];
                for a in ORDERS {
                    for b in ORDERS {
                        v.push(vec![a, b]);
                    }
                }
                v
            }
        }
    };
    let scripts_for = |n: usize| -> Vec<Vec<Script>> {
        let all = [Script::Pass, Script::Block, Script::Wait];
        match n {
            0 => vec![vec![]],
            1 => all.iter().map(|s| vec![*s]).collect(),
            _ => {
                let mut v = vec![];
                for a in all {
                    for b in all {
                        v.push(vec![a, b]);
                    }
                }
                v
            }
        }
    };
    for np in 0..=2usize {
        for nc in 0..=2usize {
            for ns in 0..=2usize {
                for po in orders_for(np) {
                    for co in orders_for(nc) {
                        for so in orders_for(ns) {
                            for scr in scripts_for(nc) {
                                for pperm in permutations(np) {
                                    for cperm in permutations(nc) {
                                        for sperm in permutations(ns) {
                                            idx += 1;
                                            if idx % opts.nshards != opts.shard {
                                                continue;
                                            }
                                            let mut insertion: Vec<(u8, usize)> = vec![];
                                            insertion.extend(sperm.iter().map(|i| (2u8, *i)));
                                            insertion.extend(cperm.iter().map(|i| (1u8, *i)));
                                            insertion.extend(pperm.iter().map(|i| (0u8, *i)));
                                            let case = Case {
                                                preps: po.clone(),
                                                checks: co.iter().cloned().zip(scr.iter().cloned()).collect(),
                                                stats: so.clone(),
                                                insertion,
                                            };
                                            handle(&mut rep, &case);
                                            exhaustive += 1;
                                        }
                                    }
                                }
                            }
                        }
                    }
                }
            }
        }
    }
    rep.extra.insert("exhaustive_small_shapes".into(), json!(exhaustive));
    // ---- sampled: up to 4 slots per kind, order values from {0,1,1,5,1000}, random insertion interleaving
    let mut rng: Rng = opts.rng();
    let n = if opts.thorough() { 400_000 } else { 40_000 };
    for _ in 0..n {
        let pick_orders = |rng: &mut Rng, k: usize| (0..k).map(|_| *rng.pick(&[0u32, 1, 1, 5, 1000])).collect::<Vec<_>>();
        let np = rng.below(5) as usize;
        let nc = rng.below(5) as usize;
        let ns = rng.below(5) as usize;
        let preps = pick_orders(&mut rng, np);
        let co = pick_orders(&mut rng, nc);
        let stats = pick_orders(&mut rng, ns);
        let checks: Vec<(u32, Script)> = co.into_iter().map(|o| (o, *rng.pick(&[Script::Pass, Script::Pass, Script::Block, Script::Wait]))).collect();
        let mut insertion: Vec<(u8, usize)> = vec![];
        insertion.extend((0..np).map(|i| (0u8, i)));
        insertion.extend((0..nc).map(|i| (1u8, i)));
        insertion.extend((0..ns).map(|i| (2u8, i)));
        rng.shuffle(&mut insertion);
        let case = Case { preps, checks, stats, insertion };
        handle(&mut rep, &case);
    }
    rep.finish()
}
