//! C16 (real-thread half) — the scenarios and oracles of the scheduled monitor
//! (harness/shared/c16_scn.rs) run on real OS threads: every scenario thread is
//! held at a spin gate until the main thread starts joining, so that the racing
//! operations really overlap on the 16 cores; the virtual clock is fixed during
//! the concurrent phase. Thousands of repetitions per scenario.

use common::{Opts, Report, T0_MS};
use sentinel_core::base::EntryStrongPtr;
use sentinel_core::{circuitbreaker as cb, EntryBuilder};
use seq::*;
use serde_json::json;
use std::sync::atomic::{AtomicBool, Ordering};
use std::sync::{Arc, Mutex};

static GO: AtomicBool = AtomicBool::new(false);

/// std::thread with a start gate: spawned threads spin until the first join() opens the gate
mod thread {
    use super::GO;
    use std::sync::atomic::Ordering;
    pub struct JoinHandle<T>(std::thread::JoinHandle<T>);
    pub fn spawn<F, T>(f: F) -> JoinHandle<T>
    where
        F: FnOnce() -> T + Send + 'static,
        T: Send + 'static,
    {
        JoinHandle(std::thread::spawn(move || {
            while !GO.load(Ordering::Acquire) {
                std::thread::yield_now();
            }
            f()
        }))
    }
    impl<T> JoinHandle<T> {
        pub fn join(self) -> std::thread::Result<T> {
            GO.store(true, Ordering::Release);
            self.0.join()
        }
    }
}

fn set_ms(ms: u64) {
    GO.store(false, Ordering::Release);
    VClock::set_ms(ms);
}
fn advance_ms(ms: u64) {
    VClock::advance_ms(ms);
}

static FOUND: Mutex<Vec<(String, String)>> = Mutex::new(Vec::new());
fn found(sig: &str, detail: String) {
    let mut g = FOUND.lock().unwrap();
    if g.len() < 1000 {
        g.push((format!("stress/{sig}"), detail));
    }
}
fn clear_everything() {
    sentinel_core::flow::clear_rules();
    cb::clear_rules();
    cb::clear_state_change_listeners();
}

include!("../../../shared/c16_scn.rs");

fn main() {
    let opts = Opts::parse();
    common::install_panic_capture();
    let mut rep = Report::new("C16", &opts);
    VClock::install(T0_MS);
    let scns = all_scenarios();
    let reps: u64 = if opts.thorough() { 10_000 } else { 400 };
    let mut runs = 0u64;
    for (i, s) in scns.iter().enumerate() {
        if i as u64 % opts.nshards != opts.shard {
            continue;
        }
        if rep.over_budget() {
            rep.notes.push(format!("stopped before scenario {i}: budget"));
            break;
        }
        let case = json!({"scenario": s.name(), "real_thread_repetitions": reps});
        let mut died = None;
        for r in 0..reps {
            if r % 50 == 49 && rep.over_budget() {
                break;
            }
            if let Err(p) = common::catch(|| scenario(*s)) {
                died = Some(p);
                break;
            }
            runs += 1;
        }
        // (counted below from `runs`)
        rep.signatures.insert(format!("stress|{}", s.name()));
        for (sig, detail) in std::mem::take(&mut *FOUND.lock().unwrap()) {
            rep.violation(&sig, detail, case.clone());
        }
        if let Some(p) = died {
            rep.violation(&format!("stress/panic/{}", common::panic_site(&p)), p, case.clone());
            break; // a panic under a manager lock leaves the process unusable
        }
    }
    rep.evaluations += runs;
    rep.nontrivial_cases += runs;
    rep.count("stress_runs", runs);
    rep.finish()
}
