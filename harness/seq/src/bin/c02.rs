//! C02 — sliding-window statistics report exactly the events inside the window.
//!
//! Monitor: build rings / read windows of arbitrary geometry through the
//! re-exported types, record generated event histories, and compare every read
//! (raw ring, windowed, ReadStat under the virtual clock, resource node) with the
//! value computed directly from the recorded event list.

use common::{Opts, Report, Rng, T0_MS};
use sentinel_core::base::{
    ConcurrencyStat, MetricEvent, ReadStat, ResourceType, StatNode, WriteStat,
    DEFAULT_STATISTIC_MAX_RT,
};
use sentinel_core::config::{self, ConfigEntity};
use sentinel_core::stat::verif_export::{BucketLeapArray, ResourceNode, SlidingWindowMetric};
use seq::*;
use serde_json::{json, Value};
use std::collections::BTreeMap;
use std::sync::Arc;

const KINDS: [MetricEvent; 5] = [
    MetricEvent::Pass,
    MetricEvent::Block,
    MetricEvent::Complete,
    MetricEvent::Error,
    MetricEvent::Rt,
];

fn kind_idx(k: MetricEvent) -> usize {
    match k {
        MetricEvent::Pass => 0,
        MetricEvent::Block => 1,
        MetricEvent::Complete => 2,
        MetricEvent::Error => 3,
        MetricEvent::Rt => 4,
    }
}

/// the statement's predicate, written independently of the code: can a read
/// window (sc buckets, w ms) be served by a ring of n buckets of bl ms?
fn servable(sc: u32, w: u32, n: u32, bl: u32) -> bool {
    if sc == 0 || w == 0 || w % sc != 0 {
        return false; // zero or non-dividing bucket count
    }
    if n == 0 || bl == 0 {
        return false;
    }
    let ring = n as u64 * bl as u64;
    // the window must tile the ring, and be made of whole ring buckets
    ring % w as u64 == 0 && (w / sc) % bl == 0
}

#[derive(Default, Clone)]
struct Agg {
    c: [u64; 5],
    min_rt: Option<u64>,
}

/// what was recorded, by bucket start (statement-level) and by ring slot (physical)
struct Model {
    n: u64,
    bl: u64,
    buckets: BTreeMap<u64, Agg>,
    slot_start: Vec<Option<u64>>,
    last_write: u64,
}

impl Model {
    fn new(n: u64, bl: u64) -> Self {
        Model {
            n,
            bl,
            buckets: BTreeMap::new(),
            slot_start: vec![None; n as usize],
            last_write: 0,
        }
    }
    fn bs(&self, t: u64) -> u64 {
        t - t % self.bl
    }
    fn write(&mut self, t: u64, k: MetricEvent, c: u64) {
        let s = self.bs(t);
        let slot = ((t / self.bl) % self.n) as usize;
        self.slot_start[slot] = Some(s);
        let a = self.buckets.entry(s).or_default();
        a.c[kind_idx(k)] += c;
        if matches!(k, MetricEvent::Rt) {
            a.min_rt = Some(a.min_rt.map_or(c, |m| m.min(c)));
        }
        self.last_write = t;
    }
    fn present(&self, s: u64) -> bool {
        let slot = ((s / self.bl) % self.n) as usize;
        self.slot_start[slot] == Some(s)
    }
    /// statement-level: events whose bucket lies in [bs(t)-w+bl, bs(t)]
    fn window(&self, t: u64, w: u64) -> (Agg, bool, bool) {
        let hi = self.bs(t);
        let lo = (hi + self.bl).saturating_sub(w);
        let mut a = Agg::default();
        let mut all_present = true;
        for (s, b) in self.buckets.range(lo..=hi) {
            for i in 0..5 {
                a.c[i] += b.c[i];
            }
            if let Some(m) = b.min_rt {
                a.min_rt = Some(a.min_rt.map_or(m, |x| x.min(m)));
            }
            if !self.present(*s) {
                all_present = false;
            }
        }
        let older_exist = self.buckets.range(..lo).next().is_some();
        (a, all_present, older_exist)
    }
    /// physical raw ring read at t: slots whose bucket start s satisfies t - s <= interval
    fn raw_physical(&self, t: u64, k: MetricEvent) -> u64 {
        let interval = self.n * self.bl;
        let mut sum = 0;
        for s in self.slot_start.iter().flatten() {
            if *s <= t && t - *s <= interval {
                sum += self.buckets[s].c[kind_idx(k)];
            }
        }
        sum
    }
}

fn approx(a: f64, b: f64) -> bool {
    (a - b).abs() <= 1e-9 * (1.0 + a.abs().max(b.abs()))
}

struct CaseLog {
    n: u32,
    bl: u32,
    sc: u32,
    w: u32,
    base: u64,
    events: Vec<(u64, usize, u64)>,
    reads: u64,
}

impl CaseLog {
    fn json(&self) -> Value {
        json!({"ring": [self.n, self.bl], "window": [self.sc, self.w], "base": self.base,
               "events": self.events.iter().take(40).collect::<Vec<_>>(), "n_events": self.events.len(), "reads": self.reads})
    }
}

const BLS: &[u32] = &[1, 2, 3, 7, 50, 100, 250, 500, 1000];

fn constructor_grid(rep: &mut Report, rng: &mut Rng, rounds: usize) {
    // exhaustive small grid + random larger values
    let mut checked = 0u64;
    let mut accepted = 0u64;
    let mut do_one = |rep: &mut Report, n: u32, bl: u32, sc: u32, w: u32| {
        let ring = BucketLeapArray::new(n, n * bl);
        let ring = match ring {
            Ok(r) => Arc::new(r),
            Err(e) => {
                rep.violation(
                    "constructor/valid-ring-refused",
                    format!("LeapArray::new({n},{}) refused: {e}", n * bl),
                    json!({"n": n, "bl": bl}),
                );
                return;
            }
        };
        let got = SlidingWindowMetric::new(sc, w, ring).is_ok();
        let want = servable(sc, w, n, bl);
        checked += 1;
        if got {
            accepted += 1;
        }
        if got != want {
            rep.violation(
                if got {
                    "constructor/unservable-window-accepted"
                } else {
                    "constructor/servable-window-refused"
                },
                format!("ring {n}x{bl}ms, window sc={sc} w={w}: accepted={got}, servable={want}"),
                json!({"n": n, "bl": bl, "sc": sc, "w": w}),
            );
        }
    };
    for n in 1..=20u32 {
        for &bl in &[1u32, 2, 3, 50, 500] {
            for sc in 0..=6u32 {
                for mult in 0..=((n + 2).min(24)) {
                    let w = mult * bl;
                    do_one(rep, n, bl, sc, w);
                    if bl > 1 {
                        do_one(rep, n, bl, sc, w + 1);
                    }
                }
            }
        }
    }
    for _ in 0..rounds {
        let n = rng.range(1, 20) as u32;
        let bl = *rng.pick(BLS);
        let sc = rng.range(0, 24) as u32;
        let w = match rng.below(3) {
            0 => rng.range(0, 25) as u32 * bl,
            1 => rng.range(0, 20_000) as u32,
            _ => sc.max(1) * bl * rng.range(1, 4) as u32,
        };
        do_one(rep, n, bl, sc, w);
    }
    // rings that must be refused: zero or non-dividing bucket count
    for (n, iv) in [(0u32, 1000u32), (3, 1000), (7, 500), (20, 10_001)] {
        if BucketLeapArray::new(n, iv).is_ok() {
            rep.violation(
                "constructor/bad-ring-accepted",
                format!("LeapArray::new({n},{iv}) accepted"),
                json!({"n": n, "interval": iv}),
            );
        }
        checked += 1;
    }
    rep.count("constructor_geometries_checked", checked);
    rep.count("constructor_geometries_accepted", accepted);
}

/// one generated history on one ring + one read window
fn run_ring_case(rng: &mut Rng, rep: &mut Report, base: u64, long: bool) {
    let n = rng.range(1, 20) as u32;
    let bl = *rng.pick(BLS);
    let interval = n * bl;
    // pick a servable window: w = k*bl*m with ring % w == 0
    let mut cands: Vec<(u32, u32)> = Vec::new();
    for wk in 1..=n {
        if n % wk == 0 {
            let w = wk * bl;
            for sc in 1..=wk {
                if wk % sc == 0 {
                    cands.push((sc, w));
                }
            }
        }
    }
    let (sc, w) = *rng.pick(&cands);
    // one case in eight starts just before a power-of-two multiple of the bucket length (bucket numbers
    // 2^31, 2^32, 2^33, 2^40: far-future timestamps, e.g. 2038 for 500 ms buckets), so that the history
    // crosses it: the ring position must not depend on the width of an intermediate integer type
    let base = if rng.chance(1, 8) {
        // (the virtual clock counts nanoseconds in an i64: stay below the year 2250)
        let mut b = (1u64 << *rng.pick(&[31u32, 32, 32, 33, 40])) * *rng.pick(&[1u64, 1, 2, 3]) * bl as u64;
        while b > 8_800_000_000_000 {
            b /= 2;
        }
        b - rng.below(2 * interval as u64 + 2)
    } else {
        base
    };
    let ring = Arc::new(BucketLeapArray::new(n, interval).unwrap());
    let win = SlidingWindowMetric::new(sc, w, ring.clone()).unwrap();
    let mut model = Model::new(n as u64, bl as u64);
    let mut log = CaseLog {
        n,
        bl,
        sc,
        w,
        base,
        events: Vec::new(),
        reads: 0,
    };
    let bl64 = bl as u64;
    let iv = interval as u64;
    let w64 = w as u64;
    let gaps = [
        0u64,
        0,
        1,
        bl64.saturating_sub(1),
        bl64,
        bl64 + 1,
        w64,
        iv.saturating_sub(1),
        iv,
        iv + 1,
        2 * iv,
        2 * iv + bl64,
        5 * iv + 3,
    ];
    let r0 = rng.below(iv.max(1));
    let mut t = base + *rng.pick(&[0u64, 1, bl64 - 1, r0]);
    let nev = if long { 30 + rng.below(170) } else { 8 + rng.below(50) };
    let mut wrapped = false;
    let mut idle_expired = false;
    let mut edge_reads = 0u32;
    let mut saw_nonzero_with_older = false;
    let mut viol: Option<(String, String)> = None;
    'outer: for _ in 0..nev {
        let gap = match rng.below(10) {
            0..=4 => *rng.pick(&gaps),
            5..=6 => {
                let to_edge = bl64 - t % bl64;
                to_edge - rng.below(2).min(to_edge)
            }
            7 => {
                let to = iv - t % iv;
                to
            }
            _ => rng.below(2 * iv + 2),
        };
        if gap > iv {
            idle_expired = true;
        }
        t += gap;
        let k = KINDS[rng.below(5) as usize];
        let c = match k {
            MetricEvent::Rt => *rng.pick(&[0u64, 1, 5, 40, 999, 59_999, 60_000, 70_000]),
            _ => rng.range(0, 9),
        };
        if ring.add_count_with_time(t, k, c).is_err() {
            viol = Some((
                "write/refused".into(),
                format!("add_count_with_time({t}) failed on a non-decreasing history"),
            ));
            break;
        }
        if model.buckets.keys().next().map_or(false, |s| t - s >= iv) {
            wrapped = true;
        }
        model.write(t, k, c);
        log.events.push((t - base, kind_idx(k), c));

        // reads at and after the last write
        let nreads = 1 + rng.below(4);
        for _ in 0..nreads {
            let d = match rng.below(8) {
                0 | 1 => 0,
                2 => bl64 - t % bl64,           // exactly the next bucket edge
                3 => (bl64 - t % bl64) + bl64,  // the edge after
                4 => w64,
                5 => iv - t % iv,               // exact multiple of the interval
                6 => iv + rng.below(bl64 + 1),
                _ => rng.below(iv + bl64),
            };
            let tr = t + d;
            if tr % bl64 == 0 {
                edge_reads |= 1;
            }
            if tr % iv == 0 {
                edge_reads |= 2;
            }
            log.reads += 1;
            let (exp, _present, older) = model.window(tr, w64);
            let kr = KINDS[rng.below(5) as usize];
            // windowed read: exact
            let got = win.sum_with_time(tr, kr);
            let want = exp.c[kind_idx(kr)];
            if want > 0 && older {
                saw_nonzero_with_older = true;
            }
            if got != want {
                viol = Some((
                    format!(
                        "windowed-sum/{}",
                        if got > want { "reports-events-outside-window" } else { "misses-events-inside-window" }
                    ),
                    format!("ring {n}x{bl} window {sc}/{w}: sum_with_time({}, {kr:?}) = {got}, events in window = {want}", tr - base),
                ));
                break 'outer;
            }
            let gq = win.qps_with_time(tr, kr);
            let wq = want as f64 / (w as f64 / 1000.0);
            if !approx(gq, wq) {
                viol = Some((
                    "windowed-qps/wrong-rate".into(),
                    format!("qps_with_time = {gq}, expected {wq}"),
                ));
                break 'outer;
            }
            // raw ring read: whole ring; statement-level value or (only on an exact
            // bucket edge) the physical value that still holds the bucket of exactly
            // one interval ago
            let (ring_exp, _, _) = model.window(tr, iv);
            let raw = ring.count_with_time(tr, kr);
            let want_raw = ring_exp.c[kind_idx(kr)];
            let phys = model.raw_physical(tr, kr);
            let edge = tr % bl64 == 0;
            if !(raw == want_raw || (edge && raw == phys)) {
                viol = Some((
                    format!(
                        "raw-count/{}",
                        if raw > want_raw { "reports-expired-events" } else { "misses-events" }
                    ),
                    format!("ring {n}x{bl}: count_with_time({}, {kr:?}) = {raw}, events in last {n} buckets = {want_raw} (edge={edge}, physical={phys})", tr - base),
                ));
                break 'outer;
            }
            if edge && raw != want_raw {
                rep.count("raw_edge_reads_using_tolerance", 1);
            }
            // ReadStat under the virtual clock
            if rng.chance(1, 2) {
                VClock::set_ms(tr);
                let s = win.sum(kr);
                if s != want {
                    viol = Some((
                        "readstat/sum".into(),
                        format!("sum({kr:?}) at now={} = {s}, expected {want}", tr - base),
                    ));
                    break 'outer;
                }
                let q = win.qps(kr);
                if !approx(q, wq) {
                    viol = Some(("readstat/qps".into(), format!("qps = {q}, expected {wq}")));
                    break 'outer;
                }
                let comp = exp.c[2];
                let want_avg = if comp == 0 { 0.0 } else { exp.c[4] as f64 / comp as f64 };
                let a = win.avg_rt();
                if !approx(a, want_avg) {
                    viol = Some((
                        "readstat/avg_rt".into(),
                        format!("avg_rt = {a}, expected {want_avg} (rt={} complete={comp})", exp.c[4]),
                    ));
                    break 'outer;
                }
                let want_min = exp
                    .min_rt
                    .map_or(DEFAULT_STATISTIC_MAX_RT, |m| m.min(DEFAULT_STATISTIC_MAX_RT))
                    as f64;
                let mr = win.min_rt();
                if mr != want_min {
                    viol = Some((
                        "readstat/min_rt".into(),
                        format!("min_rt = {mr}, expected {want_min}"),
                    ));
                    break 'outer;
                }
                // previous-window rate: a read at (now - window bucket). In scope only
                // while no in-range bucket has been recycled by a later write.
                let wb = (w / sc) as u64;
                let (pexp, ppresent, _) = model.window(tr - wb, w64);
                if ppresent {
                    let pq = win.qps_previous(kr);
                    let want_pq = pexp.c[kind_idx(kr)] as f64 / (w as f64 / 1000.0);
                    if !approx(pq, want_pq) {
                        viol = Some((
                            "readstat/qps_previous".into(),
                            format!("qps_previous = {pq}, expected {want_pq}"),
                        ));
                        break 'outer;
                    }
                    rep.count("qps_previous_checked", 1);
                }
            }
        }
    }
    let nontrivial = saw_nonzero_with_older && log.reads > 0;
    let sig = if nontrivial {
        Some(format!(
            "ring|n{}|bl{}|w{}of{}|sc{}|wrap{}|idle{}|edge{}",
            match n { 1 => "1", 2..=4 => "s", 5..=19 => "m", _ => "20" },
            bl,
            w / bl,
            n,
            sc.min(3),
            wrapped as u8,
            idle_expired as u8,
            edge_reads
        ))
    } else {
        None
    };
    rep.count("ring_reads", log.reads);
    rep.count("ring_writes", log.events.len() as u64);
    rep.case(sig, || log.json());
    if let Some((s, d)) = viol {
        rep.violation(&s, d, log.json());
    }
}

/// resource node built under a configured geometry; writes through WriteStat at
/// the virtual "now"; reads through ReadStat / generate_read_stat
fn run_node_case(rng: &mut Rng, rep: &mut Report, base: u64, long: bool) {
    // (sample_count_total, interval_total, sample_count, interval)
    const GEOS: &[(u32, u32, u32, u32)] = &[
        (20, 10_000, 2, 1000),
        (20, 10_000, 1, 1000),
        (20, 10_000, 4, 2000),
        (10, 1000, 2, 200),
        (10, 1000, 10, 1000),
        (4, 2000, 1, 500),
        (4, 2000, 4, 2000),
        (1, 1000, 1, 1000),
        (6, 600, 3, 300),
        (20, 20, 5, 10),
    ];
    let (sct, ivt, sc, iv) = *rng.pick(GEOS);
    let mut cfg = ConfigEntity::new();
    cfg.config.stat.sample_count_total = sct;
    cfg.config.stat.interval_ms_total = ivt;
    cfg.config.stat.sample_count = sc;
    cfg.config.stat.interval_ms = iv;
    if cfg.check().is_err() {
        rep.violation(
            "node/valid-geometry-refused",
            format!("config {sct}/{ivt} {sc}/{iv} refused"),
            json!([sct, ivt, sc, iv]),
        );
        return;
    }
    config::reset_global_config(cfg);
    VClock::set_ms(base);
    let node = ResourceNode::new(common::fresh_name("c02"), ResourceType::Common);
    config::reset_global_config(ConfigEntity::new());
    let geo = node.verif_geometry();
    if geo != (sct, ivt, sc, iv) {
        rep.violation(
            "node/geometry-not-as-configured",
            format!("configured {:?}, node has {:?}", (sct, ivt, sc, iv), geo),
            json!([sct, ivt, sc, iv]),
        );
        return;
    }
    let bl = (ivt / sct) as u64;
    let mut model = Model::new(sct as u64, bl);
    let ring_iv = ivt as u64;
    let w = iv as u64;
    // a second read window generated from the node
    let mut cands: Vec<(u32, u32)> = Vec::new();
    for wk in 1..=sct {
        if sct % wk == 0 {
            cands.push((1, wk * bl as u32));
            cands.push((wk, wk * bl as u32));
        }
    }
    let (gsc, gw) = *rng.pick(&cands);
    let gen = match node.generate_read_stat(gsc, gw) {
        Ok(g) => g,
        Err(e) => {
            rep.violation(
                "node/servable-read-stat-refused",
                format!("generate_read_stat({gsc},{gw}) on ring {sct}x{bl}: {e}"),
                json!([sct, ivt, gsc, gw]),
            );
            return;
        }
    };
    if node.generate_read_stat(gsc, gw + 1).is_ok() && bl > 1 {
        rep.violation(
            "node/unservable-read-stat-accepted",
            format!("generate_read_stat({gsc},{}) accepted", gw + 1),
            json!([sct, ivt, gsc, gw + 1]),
        );
    }
    let mut t = base + rng.below(ring_iv);
    let nev = if long { 20 + rng.below(120) } else { 6 + rng.below(40) };
    let mut log = CaseLog {
        n: sct,
        bl: bl as u32,
        sc,
        w: iv,
        base,
        events: vec![],
        reads: 0,
    };
    let mut viol = None;
    let mut nontrivial = false;
    let mut conc = 0u32;
    'outer: for _ in 0..nev {
        let gap = match rng.below(8) {
            0..=2 => *rng.pick(&[0u64, 1, bl - 1, bl, bl + 1, w, ring_iv, 2 * ring_iv + 1]),
            3 => bl - t % bl,
            4 => ring_iv - t % ring_iv,
            _ => rng.below(ring_iv + 2),
        };
        t += gap;
        VClock::set_ms(t);
        let k = KINDS[rng.below(5) as usize];
        let c = match k {
            MetricEvent::Rt => *rng.pick(&[0u64, 3, 77, 60_000, 61_000]),
            _ => rng.range(0, 6),
        };
        node.add_count(k, c);
        model.write(t, k, c);
        log.events.push((t - base, kind_idx(k), c));
        if rng.chance(1, 6) {
            node.increase_concurrency();
            conc += 1;
        } else if conc > 0 && rng.chance(1, 6) {
            node.decrease_concurrency();
            conc -= 1;
        }
        if node.current_concurrency() != conc {
            viol = Some((
                "node/concurrency".into(),
                format!("current_concurrency {} expected {conc}", node.current_concurrency()),
            ));
            break;
        }
        // increase_concurrency also writes into the ring at `t` (max concurrency): same bucket
        model.write(t, MetricEvent::Pass, 0);
        for _ in 0..(1 + rng.below(3)) {
            let d = match rng.below(5) {
                0 => 0,
                1 => bl - t % bl,
                2 => w,
                3 => ring_iv - t % ring_iv,
                _ => rng.below(ring_iv + bl),
            };
            let tr = t + d;
            VClock::set_ms(tr);
            log.reads += 1;
            for (name, stat, ww) in [
                ("node", &node as &dyn ReadStat, w),
                ("generated", gen.as_ref() as &dyn ReadStat, gw as u64),
            ] {
                let (exp, _, older) = model.window(tr, ww);
                let kr = KINDS[rng.below(5) as usize];
                let want = exp.c[kind_idx(kr)];
                if want > 0 && older {
                    nontrivial = true;
                }
                let got = stat.sum(kr);
                if got != want {
                    viol = Some((
                        format!("{name}/sum"),
                        format!("geometry {sct}x{bl}, window {ww}: sum({kr:?}) at {} = {got}, expected {want}", tr - base),
                    ));
                    break 'outer;
                }
                let q = stat.qps(kr);
                let wq = want as f64 / (ww as f64 / 1000.0);
                if !approx(q, wq) {
                    viol = Some((format!("{name}/qps"), format!("qps {q} expected {wq}")));
                    break 'outer;
                }
                let comp = exp.c[2];
                let want_avg = if comp == 0 { 0.0 } else { exp.c[4] as f64 / comp as f64 };
                if !approx(stat.avg_rt(), want_avg) {
                    viol = Some((
                        format!("{name}/avg_rt"),
                        format!("avg_rt {} expected {want_avg}", stat.avg_rt()),
                    ));
                    break 'outer;
                }
                let want_min = exp
                    .min_rt
                    .map_or(DEFAULT_STATISTIC_MAX_RT, |m| m.min(DEFAULT_STATISTIC_MAX_RT))
                    as f64;
                if stat.min_rt() != want_min {
                    viol = Some((
                        format!("{name}/min_rt"),
                        format!("min_rt {} expected {want_min}", stat.min_rt()),
                    ));
                    break 'outer;
                }
            }
        }
    }
    rep.count("node_reads", log.reads);
    let sig = if nontrivial {
        Some(format!("node|{sct}x{bl}|w{iv}/{sc}|gen{gw}/{gsc}"))
    } else {
        None
    };
    rep.case(sig, || log.json());
    if let Some((s, d)) = viol {
        rep.violation(&s, d, log.json());
    }
}

fn main() {
    let opts = Opts::parse();
    common::install_panic_capture();
    let mut rep = Report::new("C02", &opts);
    VClock::install(T0_MS);
    let mut rng = opts.rng();
    let thorough = opts.thorough();
    if opts.shard == 0 {
        let r = common::catch(|| constructor_grid(&mut rep, &mut rng, if thorough { 200_000 } else { 20_000 }));
        if let Err(p) = r {
            rep.violation(&format!("panic/constructor/{}", common::panic_site(&p)), p, Value::Null);
        }
    }
    let ncases = if thorough { 250_000 } else { 25_000 };
    let mut base = T0_MS + 1_000_000 * (1 + opts.shard);
    for i in 0..ncases {
        if rep.over_budget() {
            break;
        }
        base += 200_000;
        let mut crng = rng.derive();
        let node_case = i % 4 == 3;
        let r = common::catch(|| {
            if node_case {
                run_node_case(&mut crng, &mut rep, base, thorough)
            } else {
                run_ring_case(&mut crng, &mut rep, base, thorough)
            }
        });
        if let Err(p) = r {
            rep.case(None, || Value::Null);
            rep.violation(
                &format!("panic/{}/{}", if node_case { "node" } else { "ring" }, common::panic_site(&p)),
                p,
                json!({"case_index": i, "seed": opts.seed, "shard": opts.shard}),
            );
        }
    }
    rep.finish()
}
