//! C09 — system protection rejects inbound traffic exactly when a system metric trips.
//!
//! Monitor: real inbound histories under the virtual clock produce QPS,
//! concurrency, RT and completion-rate values on the global inbound node;
//! load / CPU are injected through the hooks. Rules are then placed below, on and
//! above the observed values and one probe entry is built; the decision and the
//! rejection report are compared with an oracle written from the statement.

use common::{fresh_name, Opts, Report, Rng, T0_MS};
use sentinel_core::base::{ConcurrencyStat, EntryStrongPtr, MetricEvent, ReadStat, TrafficType};
use sentinel_core::{stat, system, system_metric, EntryBuilder};
use seq::*;
use serde_json::{json, Value};
use std::sync::Arc;

#[derive(Clone, Debug)]
struct RuleSpec {
    metric: u8, // 0 load 1 avgrt 2 concurrency 3 qps 4 cpu
    bbr: bool,
    /// -1 below the observed value, 0 equal, +1 above
    pos: i8,
    delta: f64,
}

#[derive(Clone, Debug)]
struct Case {
    /// entries left in flight
    open: u32,
    /// completions in the current window: (age ms at probe time, rt ms, batch)
    completions: Vec<(u64, u64, u32)>,
    load: f64,
    cpu: f32,
    rules: Vec<RuleSpec>,
    /// further rule sets loaded one after the other WITHOUT clearing in between,
    /// each followed by another probe (reload histories)
    more_rounds: Vec<Vec<RuleSpec>>,
    probe_inbound: bool,
    t0: u64,
}

impl Case {
    fn to_json(&self) -> Value {
        json!({"open": self.open, "completions": self.completions, "load": self.load, "cpu": self.cpu,
            "rules": self.rules.iter().map(|r| json!({"metric": (["Load","AvgRT","Concurrency","InboundQPS","CpuUsage"][r.metric as usize]),
                "strategy": if r.bbr {"BBR"} else {"NoAdaptive"}, "position": r.pos, "delta": r.delta})).collect::<Vec<_>>(),
            "more_rounds": self.more_rounds.iter().map(|rs| rs.iter().map(|r| json!([r.metric, r.bbr, r.pos, r.delta])).collect::<Vec<_>>()).collect::<Vec<_>>(),
            "probe_inbound": self.probe_inbound, "t0": self.t0})
    }
}

fn gen_case(rng: &mut Rng, base: u64) -> Case {
    let open = *rng.pick(&[0u32, 0, 1, 1, 2, 3, 5, 8]);
    let nc = rng.below(7);
    let mut completions = vec![];
    for _ in 0..nc {
        completions.push((
            *rng.pick(&[0u64, 1, 100, 400, 499, 500, 600, 999, 1000, 1400, 3000]),
            *rng.pick(&[0u64, 1, 2, 10, 100, 250, 500, 1000, 2000]),
            *rng.pick(&[1u32, 1, 1, 2, 4]),
        ));
    }
    // one case in three has several rules on the SAME metric (different strategies / thresholds):
    // each of them must be enforced, not only the strictest
    let same_metric = rng.chance(1, 3);
    let nrules = if same_metric { rng.range(2, 4) } else { rng.range(1, 3) };
    let fav = rng.below(5) as u8;
    let mut rules: Vec<RuleSpec> = vec![];
    while (rules.len() as u64) < nrules {
        let metric = if same_metric && rng.chance(2, 3) { fav } else { rng.below(5) as u8 };
        if !same_metric && rules.iter().any(|r| r.metric == metric) {
            continue;
        }
        rules.push(RuleSpec {
            metric,
            bbr: rng.chance(1, 2),
            pos: *rng.pick(&[-1i8, 0, 0, 1]),
            delta: *rng.pick(&[0.25, 0.5, 1.0, 3.0]),
        });
    }
    // reload histories: the next rule set differs from the previous one in one small aspect
    let mut more_rounds = vec![];
    let mut prev = rules.clone();
    for _ in 0..rng.below(3) {
        let mut next = prev.clone();
        let k = rng.below(next.len() as u64) as usize;
        match rng.below(4) {
            0 => next[k].bbr = !next[k].bbr,
            1 => next[k].pos = *rng.pick(&[-1i8, 0, 1]),
            2 => next[k].delta = *rng.pick(&[0.25, 0.5, 1.0, 3.0]),
            _ => {
                let m = rng.below(5) as u8;
                if !next.iter().any(|r| r.metric == m) {
                    next[k].metric = m;
                }
            }
        }
        more_rounds.push(next.clone());
        prev = next;
    }
    Case {
        open,
        completions,
        more_rounds,
        // exactly representable in f32 and f64 so that "equal" really is equal
        load: *rng.pick(&[0.0, 0.125, 0.25, 0.5, 0.75, 1.0]),
        cpu: *rng.pick(&[0.0f32, 0.25, 0.5, 12.5, 50.0, 99.0]),
        rules,
        probe_inbound: rng.chance(5, 6),
        t0: base,
    }
}

struct Outcome {
    sig: Option<String>,
    violation: Option<(String, String)>,
}

fn run_case(case: &Case) -> Outcome {
    let mut out = Outcome { sig: None, violation: None };
    system::clear_rules();
    let inbound = stat::inbound_node();
    // ---- history: completions (oldest first), then the entries that stay open
    let probe_t = case.t0 + 5_000;
    let mut comps = case.completions.clone();
    comps.sort_by(|a, b| b.0.cmp(&a.0)); // larger age first
    let res_hist = fresh_name("c09h");
    // harness ledger of inbound traffic: (pass time, tokens), (completion time, rt, tokens)
    let mut passes: Vec<(u64, u64)> = vec![];
    let mut completes: Vec<(u64, u64, u64)> = vec![];
    for (age, rt, batch) in &comps {
        let end = probe_t - age;
        let start = end - rt;
        VClock::set_ms(start);
        let e = EntryBuilder::new(res_hist.clone())
            .with_traffic_type(TrafficType::Inbound)
            .with_batch_count(*batch)
            .build()
            .expect("history entry (no rules loaded)");
        VClock::set_ms(end);
        e.exit();
        passes.push((start, *batch as u64));
        completes.push((end, *rt, *batch as u64));
    }
    // entries that stay open were admitted long ago (outside every window)
    VClock::set_ms(case.t0);
    let mut open: Vec<EntryStrongPtr> = vec![];
    for _ in 0..case.open {
        open.push(
            EntryBuilder::new(res_hist.clone())
                .with_traffic_type(TrafficType::Inbound)
                .build()
                .expect("history entry"),
        );
    }
    VClock::set_ms(probe_t);
    system_metric::verif_set_system_load(case.load);
    system_metric::verif_set_cpu_usage(case.cpu);

    let mut sig_parts: Vec<String> = vec![];
    let mut rounds: Vec<&Vec<RuleSpec>> = vec![&case.rules];
    rounds.extend(case.more_rounds.iter());
    for (round, round_rules) in rounds.iter().enumerate() {
        // ---- observed values, computed from what the harness did
        let w_lo = (probe_t - probe_t % 500) - 500; // default window: two 500 ms buckets
        let in_win = |t: u64| t - t % 500 >= w_lo;
        let pass_tokens: u64 = passes.iter().filter(|p| in_win(p.0)).map(|p| p.1).sum();
        let mut comp_tokens = 0u64;
        let mut rt_sum = 0u64;
        let mut min_rt = 60_000u64;
        let mut per_bucket = [0u64; 2];
        for (end, rt, tokens) in &completes {
            if in_win(*end) {
                comp_tokens += tokens;
                rt_sum += rt;
                min_rt = min_rt.min(*rt);
                per_bucket[(((end - end % 500) - w_lo) / 500) as usize] += tokens;
            }
        }
        let qps = pass_tokens as f64; // 1 s window
        let conc = case.open as f64;
        let avg_rt = if comp_tokens == 0 { 0.0 } else { rt_sum as f64 / comp_tokens as f64 };
        let best_rate = *per_bucket.iter().max().unwrap() as f64 * 2.0; // per-second rate of the best bucket
        let capacity = best_rate * min_rt as f64 / 1000.0;
        // cross-check with what the node reports (the statistics themselves are C02/C04's business)
        let api = (
            inbound.qps(MetricEvent::Pass),
            inbound.current_concurrency() as f64,
            inbound.avg_rt(),
            inbound.min_rt(),
            inbound.max_avg(MetricEvent::Complete),
        );
        if api != (qps, conc, avg_rt, min_rt as f64, best_rate) {
            out.violation = Some((
                "metric/node-reports-other-values-than-the-traffic-produced".into(),
                format!("round {round}: node reports (qps, conc, avg_rt, min_rt, best_rate) = {api:?}, harness ledger says {:?}", (qps, conc, avg_rt, min_rt, best_rate)),
            ));
            break;
        }
        let observed = [case.load, avg_rt, conc, qps, case.cpu as f64];
        // ---- rules around the observed values
        let mut rules: Vec<Arc<system::Rule>> = vec![];
        let mut specs: Vec<(&RuleSpec, f64)> = vec![];
        for r in round_rules.iter() {
            let v = observed[r.metric as usize];
            let mut th = match r.pos {
                -1 => v - r.delta,
                0 => v,
                _ => v + r.delta,
            };
            if th < 0.0 {
                th = 0.0;
            }
            if r.metric == 0 && th > 1.0 {
                th = 1.0; // load thresholds above 1.0 are not valid
            }
            if r.metric == 4 && th > 100.0 {
                th = 100.0;
            }
            let rule = Arc::new(system::Rule {
                metric_type: [
                    system::MetricType::Load,
                    system::MetricType::AvgRT,
                    system::MetricType::Concurrency,
                    system::MetricType::InboundQPS,
                    system::MetricType::CpuUsage,
                ][r.metric as usize],
                threshold: th,
                strategy: if r.bbr { system::AdaptiveStrategy::BBR } else { system::AdaptiveStrategy::NoAdaptive },
                ..Default::default()
            });
            specs.push((r, th));
            rules.push(rule);
        }
        // later rounds replace the previous rules directly (no clear in between)
        system::load_rules(rules.clone());
        // ---- the oracle, from the statement
        let bbr_overloaded = conc > 1.0 && conc > capacity;
        let mut tripping: Vec<(String, f64, u8, bool, f64)> = vec![];
        for (r, th) in specs.iter() {
            let v = observed[r.metric as usize];
            let trips = match r.metric {
                1 | 2 | 3 => v >= *th,
                _ => v > *th && (!r.bbr || bbr_overloaded),
            };
            if trips {
                tripping.push((String::new(), v, r.metric, r.bbr, *th));
            }
        }
        let names = ["load", "avg-rt", "concurrency", "qps", "cpu"];
        let expect_reject = case.probe_inbound && !tripping.is_empty();
        let probe = EntryBuilder::new(fresh_name("c09p"))
            .with_traffic_type(if case.probe_inbound { TrafficType::Inbound } else { TrafficType::Outbound })
            .build();
        let ctx = format!(
            "round {round}: observed load={} avg_rt={avg_rt} conc={conc} qps={qps} cpu={} capacity={capacity} (bbr overloaded: {bbr_overloaded}); rules (metric,bbr,threshold) {:?}",
            case.load,
            case.cpu,
            specs.iter().map(|(r, th)| (names[r.metric as usize], r.bbr, *th)).collect::<Vec<_>>()
        );
        match &probe {
            Ok(_) => {
                if expect_reject {
                    out.violation = Some((
                        format!("decision/admitted-although-{}-trips{}", names[tripping[0].2 as usize], if round > 0 { "/after-reload" } else { "" }),
                        ctx.clone(),
                    ));
                }
            }
            Err(e) => {
                let txt = e.to_string();
                // the rule named by the report, identified by its content (metric, strategy, threshold)
                let named = ["Load", "AvgRT", "Concurrency", "InboundQPS", "CpuUsage"]
                    .iter()
                    .position(|m| txt.contains(&format!("metric_type: {m},")));
                let named_bbr = txt.contains("strategy: BBR");
                let named_th = txt.find("threshold: ").and_then(|i| {
                    let rest = &txt[i + 11..];
                    rest[..rest.find(',').unwrap_or(rest.len())].trim().parse::<f64>().ok()
                });
                if !case.probe_inbound {
                    out.violation = Some(("decision/outbound-entry-rejected".into(), txt[..txt.len().min(200)].to_string()));
                } else if !expect_reject {
                    let m = named.map(|k| names[k]).unwrap_or("?");
                    out.violation = Some((
                        format!("decision/rejected-although-nothing-trips/{m}{}", if round > 0 { "/after-reload" } else { "" }),
                        format!("{ctx}; err {}", &txt[..txt.len().min(200)]),
                    ));
                } else {
                    if err_block_type(&txt).as_deref() != Some("SystemFlow") {
                        out.violation = Some(("report/block-type".into(), format!("{:?}", err_block_type(&txt))));
                    }
                    let hit = tripping.iter().find(|t| Some(t.2 as usize) == named && t.3 == named_bbr && Some(t.4) == named_th);
                    match hit {
                        None => {
                            out.violation = Some((
                                format!("report/names-rule-that-did-not-trip{}", if round > 0 { "/after-reload" } else { "" }),
                                format!("{ctx}; report names (metric {named:?}, bbr {named_bbr}, threshold {named_th:?}); tripping {:?}", tripping.iter().map(|t| (names[t.2 as usize], t.3, t.4)).collect::<Vec<_>>()),
                            ));
                        }
                        Some(t) => {
                            // snapshot_value: Some(<observed value>)
                            let snap = txt.find("snapshot_value: Some(").map(|i| {
                                let rest = &txt[i + 21..];
                                rest[..rest.find(')').unwrap_or(rest.len())].to_string()
                            });
                            let ok = snap.as_ref().and_then(|s| s.parse::<f64>().ok()).map_or(false, |s| (s - t.1).abs() < 1e-9);
                            if !ok {
                                out.violation = Some(("report/observed-value".into(), format!("reported value {snap:?}, observed {}", t.1)));
                            }
                        }
                    }
                }
            }
        }
        let mut parts: Vec<String> = specs
            .iter()
            .map(|(r, _)| format!("{}{}{}", r.metric, if r.bbr { "b" } else { "n" }, r.pos))
            .collect();
        parts.sort();
        sig_parts.push(format!(
            "{}|rej{}|conc{}|over{}|hist{}",
            parts.join(","),
            expect_reject as u8,
            (conc > 1.0) as u8,
            bbr_overloaded as u8,
            (comp_tokens > 0) as u8
        ));
        if let Ok(e) = probe {
            e.exit();
            if case.probe_inbound {
                passes.push((probe_t, 1));
                completes.push((probe_t, 0, 1));
            }
        }
        if out.violation.is_some() {
            break;
        }
    }
    system::clear_rules();
    for e in open {
        e.exit();
    }
    // every case is a boundary probe; distinct by rule shapes and regimes of its rounds
    out.sig = Some(format!("in{}|{}", case.probe_inbound as u8, sig_parts.join(">")));
    out
}

fn main() {
    let opts = Opts::parse();
    common::install_panic_capture();
    let mut rep = Report::new("C09", &opts);
    VClock::install(T0_MS);
    let mut rng = opts.rng();
    let thorough = opts.thorough();
    let ncases = if thorough { 300_000 } else { 30_000 };
    let mut base = T0_MS + 1_000_000_000 * (1 + opts.shard);
    for i in 0..ncases {
        if rep.over_budget() {
            break;
        }
        base += 30_000;
        // once per shard: more distinct resources than the soft cap (10 000) before the next ~480 cases;
        // inbound traffic on late resources still counts for the system rules
        if i == 15 {
            VClock::set_ms(base - 20_000);
            for k in 0..10_050u32 {
                if let Ok(e) = EntryBuilder::new(format!("c09-flood-{}-{k}", opts.shard)).with_traffic_type(TrafficType::Outbound).build() {
                    e.exit();
                }
            }
            rep.count("resource_flood_nodes", 10_050);
        }
        let case = gen_case(&mut rng, base);
        let r = common::catch(|| run_case(&case));
        match r {
            Ok(o) => {
                rep.case(o.sig.clone(), || case.to_json());
                if let Some((sig, detail)) = o.violation {
                    rep.violation(&sig, detail, case.to_json());
                }
            }
            Err(p) => {
                rep.case(None, || Value::Null);
                rep.violation(&format!("panic/{}", common::panic_site(&p)), p, case.to_json());
                break; // in-flight entries may have leaked on the shared inbound node
            }
        }
        if i % 500 == 499 {
            stat::reset_resource_map();
        }
    }
    rep.finish()
}
