//! C09 — system protection rejects inbound traffic exactly when a system metric trips.
//!
//! Monitor: real inbound histories under the virtual clock produce QPS,
//! concurrency, RT and completion-rate values on the global inbound node;
//! load / CPU are injected through the hooks. Rules are then placed below, on and
//! above the observed values and one probe entry is built; the decision and the
//! rejection report are compared with an oracle written from the statement.

use common::{fresh_name, Opts, Report, Rng, T0_MS};
use sentinel_core::base::{ConcurrencyStat, EntryStrongPtr, MetricEvent, ReadStat, TrafficType};
use sentinel_core::{stat, system, system_metric, EntryBuilder};
use seq::*;
use serde_json::{json, Value};
use std::sync::Arc;

#[derive(Clone, Debug)]
struct RuleSpec {
    metric: u8, // 0 load 1 avgrt 2 concurrency 3 qps 4 cpu
    bbr: bool,
    /// -1 below the observed value, 0 equal, +1 above
    pos: i8,
    delta: f64,
}

#[derive(Clone, Debug)]
struct Case {
    /// entries left in flight
    open: u32,
    /// completions in the current window: (age ms at probe time, rt ms, batch)
    completions: Vec<(u64, u64, u32)>,
    load: f64,
    cpu: f32,
    rules: Vec<RuleSpec>,
    probe_inbound: bool,
    t0: u64,
}

impl Case {
    fn to_json(&self) -> Value {
        json!({"open": self.open, "completions": self.completions, "load": self.load, "cpu": self.cpu,
            "rules": self.rules.iter().map(|r| json!({"metric": (["Load","AvgRT","Concurrency","InboundQPS","CpuUsage"][r.metric as usize]),
                "strategy": if r.bbr {"BBR"} else {"NoAdaptive"}, "position": r.pos, "delta": r.delta})).collect::<Vec<_>>(),
            "probe_inbound": self.probe_inbound, "t0": self.t0})
    }
}

fn gen_case(rng: &mut Rng, base: u64) -> Case {
    let open = *rng.pick(&[0u32, 0, 1, 1, 2, 3, 5, 8]);
    let nc = rng.below(7);
    let mut completions = vec![];
    for _ in 0..nc {
        completions.push((
            *rng.pick(&[0u64, 1, 100, 400, 499, 500, 600, 999, 1000, 1400, 3000]),
            *rng.pick(&[0u64, 1, 2, 10, 100, 250, 500, 1000, 2000]),
            *rng.pick(&[1u32, 1, 1, 2, 4]),
        ));
    }
    let nrules = rng.range(1, 3);
    let mut rules: Vec<RuleSpec> = vec![];
    while (rules.len() as u64) < nrules {
        let metric = rng.below(5) as u8;
        if rules.iter().any(|r| r.metric == metric) {
            continue;
        }
        rules.push(RuleSpec {
            metric,
            bbr: rng.chance(1, 2),
            pos: *rng.pick(&[-1i8, 0, 0, 1]),
            delta: *rng.pick(&[0.25, 0.5, 1.0, 3.0]),
        });
    }
    Case {
        open,
        completions,
        // exactly representable in f32 and f64 so that "equal" really is equal
        load: *rng.pick(&[0.0, 0.125, 0.25, 0.5, 0.75, 1.0]),
        cpu: *rng.pick(&[0.0f32, 0.25, 0.5, 12.5, 50.0, 99.0]),
        rules,
        probe_inbound: rng.chance(5, 6),
        t0: base,
    }
}

struct Outcome {
    sig: Option<String>,
    violation: Option<(String, String)>,
}

fn run_case(case: &Case) -> Outcome {
    let mut out = Outcome { sig: None, violation: None };
    system::clear_rules();
    let inbound = stat::inbound_node();
    // ---- history: completions (oldest first), then the entries that stay open
    let probe_t = case.t0 + 5_000;
    let mut comps = case.completions.clone();
    comps.sort_by(|a, b| b.0.cmp(&a.0)); // larger age first
    let res_hist = fresh_name("c09h");
    for (age, rt, batch) in &comps {
        let end = probe_t - age;
        let start = end - rt;
        VClock::set_ms(start);
        let e = EntryBuilder::new(res_hist.clone())
            .with_traffic_type(TrafficType::Inbound)
            .with_batch_count(*batch)
            .build()
            .expect("history entry (no rules loaded)");
        VClock::set_ms(end);
        e.exit();
    }
    // entries that stay open were admitted long ago (outside every window)
    VClock::set_ms(case.t0);
    let mut open: Vec<EntryStrongPtr> = vec![];
    for _ in 0..case.open {
        open.push(
            EntryBuilder::new(res_hist.clone())
                .with_traffic_type(TrafficType::Inbound)
                .build()
                .expect("history entry"),
        );
    }
    VClock::set_ms(probe_t);
    system_metric::verif_set_system_load(case.load);
    system_metric::verif_set_cpu_usage(case.cpu);

    // ---- observed values, computed from what the harness did (the completions
    // were admitted `rt` earlier; a pass counts for QPS if it is inside the window)
    let w_lo = (probe_t - probe_t % 500) - 500; // default window: two 500 ms buckets
    let in_win = |t: u64| t - t % 500 >= w_lo;
    let mut pass_tokens = 0u64;
    let mut comp_tokens = 0u64;
    let mut rt_sum = 0u64;
    let mut min_rt = 60_000u64;
    let mut per_bucket = [0u64; 2];
    for (age, rt, batch) in &comps {
        let end = probe_t - age;
        let start = end - rt;
        if in_win(start) {
            pass_tokens += *batch as u64;
        }
        if in_win(end) {
            comp_tokens += *batch as u64;
            rt_sum += rt;
            min_rt = min_rt.min(*rt);
            per_bucket[(((end - end % 500) - w_lo) / 500) as usize] += *batch as u64;
        }
    }
    let qps = pass_tokens as f64; // 1 s window
    let conc = case.open as f64;
    let avg_rt = if comp_tokens == 0 { 0.0 } else { rt_sum as f64 / comp_tokens as f64 };
    let best_rate = *per_bucket.iter().max().unwrap() as f64 * 2.0; // per-second rate of the best bucket
    let capacity = best_rate * min_rt as f64 / 1000.0;
    // cross-check with what the node reports (the statistics themselves are C02/C04's business)
    let api = (
        inbound.qps(MetricEvent::Pass),
        inbound.current_concurrency() as f64,
        inbound.avg_rt(),
        inbound.min_rt(),
        inbound.max_avg(MetricEvent::Complete),
    );
    if api != (qps, conc, avg_rt, min_rt as f64, best_rate) {
        out.violation = Some((
            "harness/observed-values-disagree".into(),
            format!("node reports (qps, conc, avg_rt, min_rt, best_rate) = {api:?}, harness ledger says {:?}", (qps, conc, avg_rt, min_rt, best_rate)),
        ));
    }
    let observed = [case.load, avg_rt, conc, qps, case.cpu as f64];
    // ---- rules around the observed values
    let mut rules: Vec<Arc<system::Rule>> = vec![];
    let mut specs: Vec<(&RuleSpec, f64)> = vec![];
    for r in &case.rules {
        let v = observed[r.metric as usize];
        let mut th = match r.pos {
            -1 => v - r.delta,
            0 => v,
            _ => v + r.delta,
        };
        if th < 0.0 {
            th = 0.0;
        }
        if r.metric == 0 && th > 1.0 {
            th = 1.0; // load thresholds above 1.0 are not valid
        }
        if r.metric == 4 && th > 100.0 {
            th = 100.0;
        }
        let rule = Arc::new(system::Rule {
            metric_type: [
                system::MetricType::Load,
                system::MetricType::AvgRT,
                system::MetricType::Concurrency,
                system::MetricType::InboundQPS,
                system::MetricType::CpuUsage,
            ][r.metric as usize],
            threshold: th,
            strategy: if r.bbr { system::AdaptiveStrategy::BBR } else { system::AdaptiveStrategy::NoAdaptive },
            ..Default::default()
        });
        specs.push((r, th));
        rules.push(rule);
    }
    system::load_rules(rules.clone());
    if system::get_rules().len() != rules.len() {
        out.violation = Some(("setup/rules-not-loaded".into(), format!("{} of {} valid rules active", system::get_rules().len(), rules.len())));
    }
    // ---- the oracle, from the statement
    let bbr_overloaded = conc > 1.0 && conc > capacity;
    let mut tripping: Vec<(String, f64)> = vec![];
    for (k, (r, th)) in specs.iter().enumerate() {
        let v = observed[r.metric as usize];
        let trips = match r.metric {
            1 | 2 | 3 => v >= *th,
            _ => v > *th && (!r.bbr || bbr_overloaded),
        };
        if trips {
            tripping.push((rules[k].id.clone(), v));
        }
    }
    let expect_reject = case.probe_inbound && !tripping.is_empty();
    let probe = EntryBuilder::new(fresh_name("c09p"))
        .with_traffic_type(if case.probe_inbound { TrafficType::Inbound } else { TrafficType::Outbound })
        .build();
    if out.violation.is_none() {
        match &probe {
            Ok(_) => {
                if expect_reject {
                    let k = rules.iter().position(|x| x.id == tripping[0].0).unwrap();
                    let m = ["load", "avg-rt", "concurrency", "qps", "cpu"][specs[k].0.metric as usize];
                    out.violation = Some((
                        format!("decision/admitted-although-{m}-trips"),
                        format!("observed load={} avg_rt={avg_rt} conc={conc} qps={qps} cpu={} capacity={capacity}; rules {:?}", case.load, case.cpu, specs.iter().map(|(r, th)| (r.metric, r.bbr, *th)).collect::<Vec<_>>()),
                    ));
                }
            }
            Err(e) => {
                let txt = e.to_string();
                if !case.probe_inbound {
                    out.violation = Some(("decision/outbound-entry-rejected".into(), txt[..txt.len().min(200)].to_string()));
                } else if !expect_reject {
                    let id = err_rule_id(&txt).unwrap_or_default();
                    let k = rules.iter().position(|x| x.id == id);
                    let m = k.map(|k| ["load", "avg-rt", "concurrency", "qps", "cpu"][specs[k].0.metric as usize]).unwrap_or("?");
                    out.violation = Some((
                        format!("decision/rejected-although-nothing-trips/{m}"),
                        format!("observed load={} avg_rt={avg_rt} conc={conc} qps={qps} cpu={} capacity={capacity} (bbr overloaded: {bbr_overloaded}); rules {:?}; err {}", case.load, case.cpu, specs.iter().map(|(r, th)| (r.metric, r.bbr, *th)).collect::<Vec<_>>(), &txt[..txt.len().min(160)]),
                    ));
                } else {
                    if err_block_type(&txt).as_deref() != Some("SystemFlow") {
                        out.violation = Some(("report/block-type".into(), format!("{:?}", err_block_type(&txt))));
                    }
                    let id = err_rule_id(&txt).unwrap_or_default();
                    match tripping.iter().find(|(tid, _)| *tid == id) {
                        None => {
                            out.violation = Some(("report/names-rule-that-did-not-trip".into(), format!("names {id}; tripping {tripping:?}")));
                        }
                        Some((_, v)) => {
                            // snapshot_value: Some(<observed value>)
                            let snap = txt.find("snapshot_value: Some(").map(|i| {
                                let rest = &txt[i + 21..];
                                rest[..rest.find(')').unwrap_or(rest.len())].to_string()
                            });
                            let ok = snap.as_ref().and_then(|s| s.parse::<f64>().ok()).map_or(false, |s| (s - v).abs() < 1e-9);
                            if !ok {
                                out.violation = Some(("report/observed-value".into(), format!("reported value {snap:?}, observed {v}")));
                            }
                        }
                    }
                }
            }
        }
    }
    if let Ok(e) = probe {
        e.exit();
    }
    system::clear_rules();
    for e in open {
        e.exit();
    }
    // every case is a boundary probe; distinct by rule shape and regime
    let mut parts: Vec<String> = specs
        .iter()
        .map(|(r, _)| format!("{}{}{}", r.metric, if r.bbr { "b" } else { "n" }, r.pos))
        .collect();
    parts.sort();
    out.sig = Some(format!(
        "{}|in{}|rej{}|conc{}|over{}|hist{}",
        parts.join(","),
        case.probe_inbound as u8,
        expect_reject as u8,
        (conc > 1.0) as u8,
        bbr_overloaded as u8,
        (comp_tokens > 0) as u8
    ));
    out
}

fn main() {
    let opts = Opts::parse();
    common::install_panic_capture();
    let mut rep = Report::new("C09", &opts);
    VClock::install(T0_MS);
    let mut rng = opts.rng();
    let thorough = opts.thorough();
    let ncases = if thorough { 300_000 } else { 30_000 };
    let mut base = T0_MS + 1_000_000_000 * (1 + opts.shard);
    for i in 0..ncases {
        if rep.over_budget() {
            break;
        }
        base += 30_000;
        let case = gen_case(&mut rng, base);
        let r = common::catch(|| run_case(&case));
        match r {
            Ok(o) => {
                rep.case(o.sig.clone(), || case.to_json());
                if let Some((sig, detail)) = o.violation {
                    rep.violation(&sig, detail, case.to_json());
                }
            }
            Err(p) => {
                rep.case(None, || Value::Null);
                rep.violation(&format!("panic/{}", common::panic_site(&p)), p, case.to_json());
                break; // in-flight entries may have leaked on the shared inbound node
            }
        }
        if i % 500 == 499 {
            stat::reset_resource_map();
        }
    }
    rep.finish()
}
