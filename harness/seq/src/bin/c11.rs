//! C11 — hot reload keeps the state of unchanged rules and applies changed ones at once.
//!
//! Monitor (differential / metamorphic): the same generated traffic history is
//! executed three times under the same virtual timestamps, each on fresh
//! resources: (control) no reload; (reload) a reload of EQUAL rules — new ids,
//! shuffled, through load_rules or load_rules_of_resource, with unrelated
//! resources added / changed / removed and optionally an extra lax rule on the
//! same resource — inserted at position k; (reset) clear + load at k, i.e. what a
//! state-losing reload would look like. The reload trace must equal the control
//! trace (decisions, virtual time consumed, breaker states) and the enforcing
//! objects must be the same Arc before and after; a case is non-trivial only if
//! the reset trace differs from the control (there was state to lose).
//! A second mode changes one parameter and checks the very next entries.

use common::{fresh_name, Opts, Report, Rng, T0_MS};
use sentinel_core::base::EntryStrongPtr;
use sentinel_core::{circuitbreaker as cb, flow, hotspot, EntryBuilder};
use seq::*;
use serde_json::{json, Value};
use std::sync::Arc;

#[derive(Clone, Debug)]
enum FlowKind {
    /// thresholds of reject rules with their stat intervals
    Reject(Vec<(f64, u32)>),
    /// rate, interval, max queue
    Throttle(f64, u32, u32),
    /// q, cold factor, period
    WarmUp(f64, u32, u32),
}

#[derive(Clone, Debug)]
enum HotKind {
    QpsReject { q: u64, burst: u64, d: u64 },
    QpsThrottle { q: u64, d: u64, maxq: u64 },
    Concurrency { t: u64 },
}

#[derive(Clone, Debug)]
struct BrkSpec {
    strategy: u8,
    threshold: f64,
    interval: u32,
    buckets: u32,
    retry: u32,
    min: u64,
}

#[derive(Clone, Debug)]
struct Setup {
    flow: Option<FlowKind>,
    hot: Vec<HotKind>,
    brk: Vec<BrkSpec>,
}

impl Setup {
    /// with more than one hotspot rule or breaker on the resource the trace depends on
    /// the (hash) order in which the slot consults them, so only object identity and
    /// breaker states across the reload are asserted
    fn order_sensitive(&self) -> bool {
        self.hot.len() > 1 || self.brk.len() > 1
    }
}

#[derive(Clone, Debug)]
enum Op {
    Req { batch: u32, value: usize },
    Exit { idx: usize, err: bool },
    Adv(u64),
}

#[derive(Clone, Copy, Debug, PartialEq)]
enum Mode {
    Control,
    Reload,
    Reset,
}

#[derive(Clone, Debug)]
struct ReloadPlan {
    k: usize,
    /// 0 load_rules (global), 1 load_rules_of_resource
    via: u8,
    /// also give the resource an extra rule in the same call (forces a rebuild): 0 none, 1 a very lax rule,
    /// 2 a valid rule that cannot be enforced (custom strategy without a registered generator: the manager
    /// logs an error and skips it; the other rules must not notice)
    extra_lax: u8,
    /// unrelated resource in the same global call: 0 none, 1 added, 2 changed
    unrelated: u8,
}

#[derive(Clone, Debug)]
struct Case {
    setup: Setup,
    t0: u64,
    ops: Vec<Op>,
    plan: ReloadPlan,
}

impl Case {
    fn to_json(&self) -> Value {
        json!({"setup": format!("{:?}", self.setup), "t0": self.t0, "plan": format!("{:?}", self.plan),
               "ops": self.ops.iter().map(|o| format!("{o:?}")).collect::<Vec<_>>()})
    }
}

const VALUES: &[&str] = &["a", "b", "c"];

fn flow_rules(res: &str, k: &FlowKind) -> Vec<Arc<flow::Rule>> {
    match k {
        FlowKind::Reject(v) => v
            .iter()
            .map(|(th, iv)| Arc::new(flow::Rule { resource: res.into(), threshold: *th, stat_interval_ms: *iv, ..Default::default() }))
            .collect(),
        FlowKind::Throttle(r, iv, mq) => vec![Arc::new(flow::Rule {
            resource: res.into(),
            threshold: *r,
            stat_interval_ms: *iv,
            max_queueing_time_ms: *mq,
            control_strategy: flow::ControlStrategy::Throttling,
            ..Default::default()
        })],
        FlowKind::WarmUp(q, c, p) => vec![Arc::new(flow::Rule {
            resource: res.into(),
            threshold: *q,
            calculate_strategy: flow::CalculateStrategy::WarmUp,
            warm_up_cold_factor: *c,
            warm_up_period_sec: *p,
            ..Default::default()
        })],
    }
}

fn hot_rules(res: &str, ks: &[HotKind]) -> Vec<Arc<hotspot::Rule>> {
    ks.iter().map(|k| hot_rule(res, k)).collect()
}

fn hot_rule(res: &str, k: &HotKind) -> Arc<hotspot::Rule> {
    let base = hotspot::Rule { resource: res.into(), param_index: 0, params_max_capacity: 16, ..Default::default() };
    Arc::new(match k {
        HotKind::QpsReject { q, burst, d } => hotspot::Rule { metric_type: hotspot::MetricType::QPS, control_strategy: hotspot::ControlStrategy::Reject, threshold: *q, burst_count: *burst, duration_in_sec: *d, ..base },
        HotKind::QpsThrottle { q, d, maxq } => hotspot::Rule { metric_type: hotspot::MetricType::QPS, control_strategy: hotspot::ControlStrategy::Throttling, threshold: *q, duration_in_sec: *d, max_queueing_time_ms: *maxq, ..base },
        HotKind::Concurrency { t } => hotspot::Rule { metric_type: hotspot::MetricType::Concurrency, threshold: *t, ..base },
    })
}

fn brk_rules(res: &str, bs: &[BrkSpec]) -> Vec<Arc<cb::Rule>> {
    bs.iter().map(|b| brk_rule(res, b)).collect()
}

fn brk_rule(res: &str, b: &BrkSpec) -> Arc<cb::Rule> {
    Arc::new(cb::Rule {
        resource: res.into(),
        strategy: [cb::BreakerStrategy::SlowRequestRatio, cb::BreakerStrategy::ErrorRatio, cb::BreakerStrategy::ErrorCount][b.strategy as usize],
        threshold: b.threshold,
        stat_interval_ms: b.interval,
        stat_sliding_window_bucket_count: b.buckets,
        retry_timeout_ms: b.retry,
        min_request_amount: b.min,
        max_allowed_rt_ms: 20,
        ..Default::default()
    })
}

/// pointer identity of the enforcing objects of `res`
fn object_ids(res: &String) -> Vec<(String, usize)> {
    let mut v = vec![];
    for c in flow::get_traffic_controller_list_for(res) {
        v.push((format!("flow:{}:{}", c.rule().threshold, c.rule().stat_interval_ms), Arc::as_ptr(&c) as *const () as usize));
    }
    for c in hotspot::get_traffic_controller_list_for(res) {
        v.push((format!("hot:{:?}:{:?}:{}", c.rule().metric_type, c.rule().control_strategy, c.rule().threshold), Arc::as_ptr(&c) as *const () as usize));
    }
    for b in cb::get_breakers_of_resource(res) {
        v.push((format!("cb:{:?}:{}:{:?}", b.bound_rule().strategy, b.bound_rule().threshold, b.current_state()), Arc::as_ptr(&b) as *const () as usize));
    }
    v.sort();
    v
}

struct Trace {
    /// per op: textual observation
    obs: Vec<String>,
    identity_violation: Option<String>,
    reload_returns: Vec<String>,
}

fn load_all(res: &String, other: &String, setup: &Setup, other_variant: u8, extra_lax: u8, via: u8) -> Vec<String> {
    let mut rets = vec![];
    if let Some(k) = &setup.flow {
        let mut rules = flow_rules(res, k);
        if extra_lax == 1 {
            rules.push(Arc::new(flow::Rule { resource: res.clone(), threshold: 1e12, stat_interval_ms: 10_000, ..Default::default() }));
        } else if extra_lax == 2 {
            rules.push(Arc::new(flow::Rule { resource: res.clone(), threshold: 1e12, control_strategy: flow::ControlStrategy::Custom(211), ..Default::default() }));
        }
        let mut rng_order = rules.len();
        if rng_order > 1 {
            rules.reverse();
            rng_order = 0;
        }
        let _ = rng_order;
        if via == 0 {
            let mut all = rules;
            if other_variant > 0 {
                all.push(Arc::new(flow::Rule { resource: other.clone(), threshold: other_variant as f64 * 10.0, ..Default::default() }));
            }
            rets.push(format!("flow::load_rules -> {}", flow::load_rules(all)));
        } else {
            rets.push(format!("flow::load_rules_of_resource -> {:?}", flow::load_rules_of_resource(res, rules).ok()));
        }
    }
    if !setup.hot.is_empty() {
        let mut rules = hot_rules(res, &setup.hot);
        rules.reverse();
        if extra_lax == 1 {
            rules.push(Arc::new(hotspot::Rule { resource: res.clone(), metric_type: hotspot::MetricType::Concurrency, param_index: 7, threshold: 1_000_000, params_max_capacity: 4, ..Default::default() }));
        } else if extra_lax == 2 {
            rules.push(Arc::new(hotspot::Rule { resource: res.clone(), metric_type: hotspot::MetricType::QPS, control_strategy: hotspot::ControlStrategy::Custom(211), param_index: 7, threshold: 1_000_000, duration_in_sec: 1, params_max_capacity: 4, ..Default::default() }));
        }
        if via == 0 {
            let mut all = rules;
            if other_variant > 0 {
                all.push(Arc::new(hotspot::Rule { resource: other.clone(), threshold: other_variant as u64 * 10, params_max_capacity: 4, ..Default::default() }));
            }
            rets.push(format!("hotspot::load_rules -> {}", hotspot::load_rules(all)));
        } else {
            rets.push(format!("hotspot::load_rules_of_resource -> {:?}", hotspot::load_rules_of_resource(res, rules).ok()));
        }
    }
    if !setup.brk.is_empty() {
        let mut rules = brk_rules(res, &setup.brk);
        rules.reverse();
        if extra_lax == 2 {
            rules.push(Arc::new(cb::Rule { resource: res.clone(), strategy: cb::BreakerStrategy::Custom(211), threshold: 1.0, stat_interval_ms: 60_000, retry_timeout_ms: 1, min_request_amount: 1_000_000_000, ..Default::default() }));
        } else if extra_lax == 1 {
            rules.push(Arc::new(cb::Rule { resource: res.clone(), strategy: cb::BreakerStrategy::ErrorCount, threshold: 1e9, stat_interval_ms: 60_000, retry_timeout_ms: 1, min_request_amount: 1_000_000_000, ..Default::default() }));
        }
        if via == 0 {
            let mut all = rules;
            if other_variant > 0 {
                all.push(Arc::new(cb::Rule { resource: other.clone(), strategy: cb::BreakerStrategy::ErrorCount, threshold: other_variant as f64 * 10.0, stat_interval_ms: 1000, retry_timeout_ms: 1000, ..Default::default() }));
            }
            rets.push(format!("cb::load_rules -> {}", cb::load_rules(all)));
        } else {
            rets.push(format!("cb::load_rules_of_resource -> {:?}", cb::load_rules_of_resource(res, rules).ok()));
        }
    }
    rets
}

fn clear_all(res: &String, other: &String) {
    for r in [res, other] {
        flow::clear_rules_of_resource(r);
        hotspot::clear_rules_of_resource(r);
        cb::clear_rules_of_resource(r);
    }
}

fn execute(case: &Case, mode: Mode) -> Trace {
    let res = fresh_name("c11");
    let other = fresh_name("c11-other");
    VClock::set_ms(case.t0);
    // initial load: the "unrelated" resource exists from the start in variant 2 (it will be changed)
    load_all(&res, &other, &case.setup, if case.plan.unrelated == 2 { 1 } else { 0 }, 0, 0);
    let mut tr = Trace { obs: vec![], identity_violation: None, reload_returns: vec![] };
    let mut open: Vec<EntryStrongPtr> = vec![];
    for (i, op) in case.ops.iter().enumerate() {
        if i == case.plan.k {
            match mode {
                Mode::Control => {}
                Mode::Reload => {
                    let before = object_ids(&res);
                    tr.reload_returns = load_all(&res, &other, &case.setup, if case.plan.unrelated == 0 { 0 } else { 2 }, case.plan.extra_lax, case.plan.via);
                    let after = object_ids(&res);
                    for (k, p) in &before {
                        if !after.iter().any(|(k2, p2)| k2 == k && p2 == p) {
                            tr.identity_violation = Some(format!("object for {k} replaced by the reload (before {before:?}, after {after:?})"));
                        }
                    }
                }
                Mode::Reset => {
                    clear_all(&res, &other);
                    load_all(&res, &other, &case.setup, 0, 0, 0);
                }
            }
        }
        match op {
            Op::Adv(ms) => {
                VClock::advance_ms(*ms);
                tr.obs.push(String::new());
            }
            Op::Exit { idx, err } => {
                if open.is_empty() {
                    tr.obs.push("noop".into());
                } else {
                    let e = open.remove(*idx % open.len());
                    if *err {
                        e.set_err(sentinel_core::Error::msg("biz"));
                    }
                    e.exit();
                    tr.obs.push("exit".into());
                }
            }
            Op::Req { batch, value } => {
                let before = VClock::now_ns();
                let r = EntryBuilder::new(res.clone())
                    .with_batch_count(*batch)
                    .with_args(Some(vec![VALUES[*value].to_string()]))
                    .build();
                let waited = VClock::now_ns() - before;
                match r {
                    Ok(e) => {
                        open.push(e);
                        tr.obs.push(format!("ok wait={waited}"));
                    }
                    Err(e) => tr.obs.push(format!("blocked {} wait={waited}", err_block_type(&e.to_string()).unwrap_or_default())),
                }
            }
        }
        // breaker state is part of the observation
        if !case.setup.brk.is_empty() {
            let mut st: Vec<String> = cb::get_breakers_of_resource(&res)
                .iter()
                .filter(|b| b.bound_rule().threshold < 1e8)
                .map(|b| format!("{}:{:?}", b.bound_rule().threshold, b.current_state()))
                .collect();
            st.sort();
            let last = tr.obs.last_mut().unwrap();
            last.push_str(&format!(" cb={}", st.join(",")));
        }
    }
    for e in open {
        e.exit();
    }
    clear_all(&res, &other);
    tr
}

fn gen_setup(rng: &mut Rng) -> Setup {
    let flow = match rng.below(6) {
        0 => None,
        1 | 2 => {
            let n = rng.range(1, 2);
            let mut v = vec![];
            for _ in 0..n {
                let th = *rng.pick(&[1.0, 2.0, 3.0, 5.0]);
                let iv = *rng.pick(&[0u32, 1000, 2000, 5000, 700, 1500, 3000]);
                if !v.iter().any(|(t, i): &(f64, u32)| *t == th && *i == iv) {
                    v.push((th, iv));
                }
            }
            Some(FlowKind::Reject(v))
        }
        3 => Some(FlowKind::Throttle(*rng.pick(&[1.0, 2.0, 5.0]), *rng.pick(&[1000u32, 2000, 500]), *rng.pick(&[0u32, 300, 1500]))),
        _ => Some(FlowKind::WarmUp(*rng.pick(&[30.0, 60.0]), *rng.pick(&[0u32, 2, 3]), *rng.pick(&[1u32, 2, 3]))),
    };
    let gen_hot = |rng: &mut Rng| match rng.below(3) {
        0 => HotKind::QpsReject { q: rng.range(1, 4), burst: rng.below(3), d: rng.range(1, 2) },
        1 => HotKind::QpsThrottle { q: rng.range(1, 4), d: 1, maxq: *rng.pick(&[0u64, 400, 1500]) },
        _ => HotKind::Concurrency { t: rng.range(1, 3) },
    };
    let mut hot = vec![];
    match rng.below(6) {
        0 | 1 => {}
        2..=4 => hot.push(gen_hot(rng)),
        _ => {
            // two rules that can share statistics: same kind, different threshold
            let a = gen_hot(rng);
            let b = match &a {
                HotKind::QpsReject { q, burst, d } => HotKind::QpsReject { q: q + 1 + rng.below(3), burst: *burst, d: *d },
                HotKind::QpsThrottle { q, d, maxq } => HotKind::QpsThrottle { q: q + 1 + rng.below(3), d: *d, maxq: *maxq },
                HotKind::Concurrency { t } => HotKind::Concurrency { t: t + 1 + rng.below(3) },
            };
            hot.push(a);
            hot.push(b);
        }
    }
    let mut brk = vec![];
    if rng.chance(1, 2) {
        let strategy = rng.below(3) as u8;
        let first = BrkSpec {
            strategy,
            threshold: if strategy == 2 { *rng.pick(&[1.0, 2.0, 3.0]) } else { *rng.pick(&[0.3, 0.5, 1.0]) },
            interval: *rng.pick(&[1000u32, 2000]),
            buckets: *rng.pick(&[1u32, 2, 4]),
            retry: *rng.pick(&[300u32, 1000, 2500]),
            min: rng.range(0, 3),
        };
        // siblings that could share the statistic (same strategy / window / buckets), other threshold
        let nsib = if rng.chance(1, 3) { rng.range(1, 2) } else { 0 };
        for j in 0..nsib {
            let mut sib = first.clone();
            sib.threshold = if strategy == 2 { first.threshold + 1.0 + j as f64 } else { (first.threshold / (2.0 + j as f64)).max(0.05) };
            brk.push(sib);
        }
        brk.push(first);
    }
    if flow.is_none() && hot.is_empty() && brk.is_empty() {
        return gen_setup(rng);
    }
    Setup { flow, hot, brk }
}

fn gen_case(rng: &mut Rng, base: u64, long: bool) -> Case {
    let setup = gen_setup(rng);
    let len = if long { 20 + rng.below(60) } else { 8 + rng.below(30) } as usize;
    let warm = matches!(setup.flow, Some(FlowKind::WarmUp(..)));
    let mut ops = vec![];
    for _ in 0..len {
        let k = rng.below(10);
        ops.push(if k < 5 {
            Op::Req { batch: *rng.pick(&[1u32, 1, 1, 2]), value: rng.below(3) as usize }
        } else if k < 8 {
            Op::Exit { idx: rng.below(8) as usize, err: rng.chance(1, 2) }
        } else {
            Op::Adv(*rng.pick(&[1u64, 5, 30, 200, 400, 500, 999, 1000, 1001, 2500, if warm { 1000 } else { 6000 }]))
        });
        if warm && rng.chance(1, 2) {
            // warm-up needs volume: bursts of requests
            for _ in 0..rng.below(25) {
                ops.push(Op::Req { batch: 1, value: 0 });
                ops.push(Op::Exit { idx: 0, err: false });
            }
        }
    }
    let k = rng.range(1, ops.len() as u64 - 1) as usize;
    Case {
        setup,
        t0: base + rng.below(1000),
        ops,
        plan: ReloadPlan { k, via: rng.below(2) as u8, extra_lax: *rng.pick(&[0u8, 1, 1, 2]), unrelated: rng.below(3) as u8 },
    }
}

// ------------------------------------------------------------------ changed parameter

/// after a reload that changes one parameter the very next entries obey the new value
fn run_change_case(rng: &mut Rng, base: u64) -> (Option<String>, Option<(String, String)>, Value) {
    let res = fresh_name("c11chg");
    VClock::set_ms(base);
    let via_res = rng.chance(1, 2);
    let keep_id = rng.chance(1, 2);
    let kind = rng.below(4);
    let desc;
    let mut viol = None;
    match kind {
        0 => {
            // flow reject on the default window: the window contents are kept, the new threshold governs
            let old = *rng.pick(&[2.0, 3.0, 5.0]);
            let new = *rng.pick(&[1.0, 4.0, 6.0, 8.0]);
            let r0 = Arc::new(flow::Rule { resource: res.clone(), threshold: old, ..Default::default() });
            flow::load_rules_of_resource(&res, vec![r0.clone()]).unwrap();
            let mut admitted = 0u64;
            for _ in 0..rng.range(0, 6) {
                if let Ok(e) = EntryBuilder::new(res.clone()).build() {
                    e.exit();
                    admitted += 1;
                }
            }
            let r1 = Arc::new(flow::Rule { id: if keep_id { r0.id.clone() } else { flow::Rule::default().id }, resource: res.clone(), threshold: new, ..Default::default() });
            if via_res {
                flow::load_rules_of_resource(&res, vec![r1]).unwrap();
            } else {
                flow::load_rules(vec![r1]);
            }
            desc = json!({"kind": "flow-reject-threshold", "old": old, "new": new, "admitted_before": admitted, "via_res": via_res, "keep_id": keep_id});
            for j in 0..8u64 {
                let expect = (admitted + 1) as f64 <= new;
                let got = match EntryBuilder::new(res.clone()).build() {
                    Ok(e) => {
                        e.exit();
                        true
                    }
                    Err(_) => false,
                };
                if got != expect {
                    viol = Some(("changed/flow-threshold-not-in-effect".to_string(), format!("entry #{j} after the reload: admitted={got}, with {admitted} tokens already in the window and the new threshold {new} it must be {expect}")));
                    break;
                }
                if got {
                    admitted += 1;
                }
            }
            flow::clear_rules_of_resource(&res);
        }
        1 => {
            // flow throttling: rate / interval changed => the new pacing applies
            let (old_r, old_iv) = (*rng.pick(&[1.0, 2.0]), *rng.pick(&[60_000u32, 600_000]));
            let change_interval_only = rng.chance(1, 2);
            let (new_r, new_iv) = if change_interval_only { (old_r, 100u32) } else { (old_r * 100.0, old_iv) };
            let mk = |id: Option<String>, r: f64, iv: u32| {
                Arc::new(flow::Rule { id: id.unwrap_or_else(|| flow::Rule::default().id), resource: res.clone(), threshold: r, stat_interval_ms: iv, control_strategy: flow::ControlStrategy::Throttling, ..Default::default() })
            };
            let r0 = mk(None, old_r, old_iv);
            flow::load_rules_of_resource(&res, vec![r0.clone()]).unwrap();
            if let Ok(e) = EntryBuilder::new(res.clone()).build() {
                e.exit();
            }
            let slow = EntryBuilder::new(res.clone()).build().is_err(); // old pacing: second request at the same instant is refused
            let r1 = mk(if keep_id { Some(r0.id.clone()) } else { None }, new_r, new_iv);
            if via_res {
                flow::load_rules_of_resource(&res, vec![r1]).unwrap();
            } else {
                flow::load_rules(vec![r1]);
            }
            desc = json!({"kind": "flow-throttling", "old": [old_r, old_iv], "new": [new_r, new_iv], "via_res": via_res, "keep_id": keep_id, "old_pacing_seen": slow});
            let step_ms = (new_iv as f64 / new_r).ceil() as u64 + 1;
            for j in 0..5u64 {
                VClock::advance_ms(step_ms);
                match EntryBuilder::new(res.clone()).build() {
                    Ok(e) => e.exit(),
                    Err(_) => {
                        viol = Some(("changed/throttling-pacing-not-in-effect".to_string(), format!("request #{j} spaced {step_ms} ms (new interval/rate) after the previous one was rejected: the old pacing ({old_r} per {old_iv} ms) is still enforced")));
                        break;
                    }
                }
            }
            flow::clear_rules_of_resource(&res);
        }
        2 => {
            // hotspot concurrency: per-value in-flight counters are kept, the new threshold governs
            let old = rng.range(2, 4);
            let new = rng.range(1, 6);
            let mk = |id: Option<String>, t: u64| Arc::new(hotspot::Rule { id: id.unwrap_or_else(|| hotspot::Rule::default().id), resource: res.clone(), metric_type: hotspot::MetricType::Concurrency, threshold: t, params_max_capacity: 8, ..Default::default() });
            let r0 = mk(None, old);
            hotspot::load_rules_of_resource(&res, vec![r0.clone()]).unwrap();
            let mut open = vec![];
            for _ in 0..rng.range(0, 5) {
                if let Ok(e) = EntryBuilder::new(res.clone()).with_args(Some(vec!["v".into()])).build() {
                    open.push(e);
                }
            }
            let r1 = mk(if keep_id { Some(r0.id.clone()) } else { None }, new);
            if via_res {
                hotspot::load_rules_of_resource(&res, vec![r1]).unwrap();
            } else {
                hotspot::load_rules(vec![r1]);
            }
            desc = json!({"kind": "hotspot-concurrency-threshold", "old": old, "new": new, "open_before": open.len(), "via_res": via_res, "keep_id": keep_id});
            for j in 0..7u64 {
                let expect = open.len() as u64 + 1 <= new;
                let r = EntryBuilder::new(res.clone()).with_args(Some(vec!["v".into()])).build();
                if r.is_ok() != expect {
                    viol = Some(("changed/hotspot-threshold-not-in-effect".to_string(), format!("entry #{j} after the reload: admitted={}, {} entries of the value in flight, new threshold {new}", r.is_ok(), open.len())));
                    break;
                }
                if let Ok(e) = r {
                    open.push(e);
                }
            }
            for e in open {
                e.exit();
            }
            hotspot::clear_rules_of_resource(&res);
        }
        _ => {
            // circuit breaker: retry timeout changed while Open => new breaker (Closed) or at least the new timeout; min amount changed while Closed
            let old_th = rng.range(1, 3);
            let new_th = old_th + rng.range(1, 3);
            let mk = |id: Option<String>, th: u64| Arc::new(cb::Rule { id: id.unwrap_or_else(|| cb::Rule::default().id), resource: res.clone(), strategy: cb::BreakerStrategy::ErrorCount, threshold: th as f64, stat_interval_ms: 10_000, retry_timeout_ms: 5_000, min_request_amount: 1, ..Default::default() });
            let r0 = mk(None, old_th);
            cb::load_rules_of_resource(&res, vec![r0.clone()]).unwrap();
            // old_th - 1 errors: still closed
            let mut errors = 0u64;
            for _ in 0..old_th - 1 {
                if let Ok(e) = EntryBuilder::new(res.clone()).build() {
                    e.set_err(sentinel_core::Error::msg("x"));
                    e.exit();
                    errors += 1;
                }
            }
            let r1 = mk(if keep_id { Some(r0.id.clone()) } else { None }, new_th);
            if via_res {
                cb::load_rules_of_resource(&res, vec![r1]).unwrap();
            } else {
                cb::load_rules(vec![r1]);
            }
            desc = json!({"kind": "breaker-error-count-threshold", "old": old_th, "new": new_th, "errors_before": errors, "via_res": via_res, "keep_id": keep_id});
            // whether the recorded errors survive a changed rule is not specified; what is:
            // one more error (= the OLD threshold) must not open the breaker any more, and
            // new_th further errors must open it at the latest
            let mut more = 0u64;
            for j in 0..(new_th + 2) {
                let r = EntryBuilder::new(res.clone()).build();
                match r {
                    Ok(e) => {
                        e.set_err(sentinel_core::Error::msg("x"));
                        e.exit();
                        more += 1;
                        if more > new_th {
                            viol = Some(("changed/breaker-threshold-not-in-effect".to_string(), format!("{more} errors after the reload (threshold {new_th}) and the breaker still admits")));
                            break;
                        }
                    }
                    Err(_) => {
                        if errors + more < new_th && more < new_th {
                            viol = Some(("changed/breaker-threshold-not-in-effect".to_string(), format!("entry #{j} after the reload rejected with {} errors in total ({more} after the reload): new threshold {new_th}, old {old_th}", errors + more)));
                        }
                        break;
                    }
                }
            }
            cb::clear_rules_of_resource(&res);
        }
    }
    let sig = Some(format!("change|{}|res{}|id{}", desc["kind"].as_str().unwrap(), via_res as u8, keep_id as u8));
    (sig, viol, desc)
}

fn main() {
    let opts = Opts::parse();
    common::install_panic_capture();
    let mut rep = Report::new("C11", &opts);
    VClock::install(T0_MS);
    let mut rng = opts.rng();
    let thorough = opts.thorough();
    let ncases = if thorough { 60_000 } else { 6_000 };
    let mut base = T0_MS + 2_000_000_000 * (1 + opts.shard);
    for i in 0..ncases {
        if rep.over_budget() {
            break;
        }
        base += 3_000_000;
        if i % 4 == 3 {
            let mut crng = rng.derive();
            let r = common::catch(|| run_change_case(&mut crng, base));
            match r {
                Ok((sig, v, desc)) => {
                    rep.count("changed_parameter_cases", 1);
                    rep.case(sig, || desc.clone());
                    if let Some((s, d)) = v {
                        rep.violation(&s, d, desc);
                    }
                }
                Err(p) => {
                    rep.case(None, || Value::Null);
                    rep.violation(&format!("panic/change/{}", common::panic_site(&p)), p, json!({"case_index": i}));
                }
            }
            continue;
        }
        let case = gen_case(&mut rng, base, thorough);
        let r = common::catch(|| {
            let control = execute(&case, Mode::Control);
            let reload = execute(&case, Mode::Reload);
            (control, reload)
        });
        // the state-losing variant only tells whether there was state to lose; clearing
        // rules under in-flight entries is outside this property, so a failure there
        // just means "sensitive"
        let reset = common::catch(|| execute(&case, Mode::Reset)).ok();
        match r {
            Ok((control, reload)) => {
                rep.count("differential_cases", 1);
                let sensitive = reset.as_ref().map_or(true, |r| control.obs != r.obs);
                if reset.is_none() {
                    rep.count("reset_variant_panicked", 1);
                }
                let fam = format!(
                    "{}|{}|{}",
                    match &case.setup.flow { None => "-", Some(FlowKind::Reject(v)) => if v.iter().any(|x| flow_private(x.1)) { "reject-private" } else { "reject-global" }, Some(FlowKind::Throttle(..)) => "throttle", Some(FlowKind::WarmUp(..)) => "warmup" },
                    match case.setup.hot.first() { None => "-".to_string(), Some(HotKind::QpsReject { .. }) => format!("qps-reject{}", case.setup.hot.len()), Some(HotKind::QpsThrottle { .. }) => format!("qps-throttle{}", case.setup.hot.len()), Some(HotKind::Concurrency { .. }) => format!("concurrency{}", case.setup.hot.len()) },
                    match case.setup.brk.first() { None => "-".to_string(), Some(b) => format!("cb{}x{}", b.strategy, case.setup.brk.len()) },
                );
                let sig = if sensitive {
                    Some(format!("{fam}|via{}|lax{}|other{}", case.plan.via, case.plan.extra_lax, case.plan.unrelated))
                } else {
                    None
                };
                rep.case(sig, || case.to_json());
                if let Some(d) = reload.identity_violation {
                    rep.violation(&format!("identity/object-replaced/{}", fam.split('|').zip(["flow", "hot", "cb"]).filter(|(f, _)| *f != "-").map(|(_, n)| n).collect::<Vec<_>>().join("+")), d, case.to_json());
                } else if control.obs != reload.obs && !case.setup.order_sensitive() {
                    let first = control.obs.iter().zip(reload.obs.iter()).position(|(a, b)| a != b).unwrap_or(0);
                    rep.violation(
                        &format!("trace/differs-after-reload/{fam}"),
                        format!("op #{first} ({:?}): without reload `{}`, with the reload of equal rules at #{} `{}`; reload returned {:?}", case.ops.get(first), control.obs.get(first).cloned().unwrap_or_default(), case.plan.k, reload.obs.get(first).cloned().unwrap_or_default(), reload.reload_returns),
                        case.to_json(),
                    );
                }
            }
            Err(p) => {
                rep.case(None, || Value::Null);
                rep.violation(&format!("panic/{}", common::panic_site(&p)), p, case.to_json());
            }
        }
        if i % 100 == 99 {
            sentinel_core::stat::reset_resource_map();
        }
    }
    rep.finish()
}

fn flow_private(iv: u32) -> bool {
    !(iv == 0 || iv == 1000 || (10_000 % iv == 0 && iv % 500 == 0))
}
