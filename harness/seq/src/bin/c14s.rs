//! C14 (real-thread half) — barrier-released OS threads build and exit entries on
//! a brand-new resource per trial; same oracle as the scheduled half: one shared
//! node, in-flight back to the number of un-exited entries, totals equal to the
//! per-thread sums (the virtual clock is fixed, so everything falls into one bucket).

use common::{Opts, Report, T0_MS};
use sentinel_core::base::{ConcurrencyStat, MetricEvent, ReadStat, StatNode, TrafficType};
use sentinel_core::{stat, EntryBuilder};
use seq::*;
use serde_json::json;
use std::sync::{Arc, Barrier};

fn main() {
    let opts = Opts::parse();
    common::install_panic_capture();
    let mut rep = Report::new("C14", &opts);
    VClock::install(T0_MS + 250);
    let trials: u64 = if opts.thorough() { 200_000 } else { 12_000 };
    let mut rng = opts.rng();
    let mut split = 0u64;
    for t in 0..trials {
        if rep.over_budget() {
            break;
        }
        let nthreads = rng.range(2, 4) as usize;
        let pairs = rng.range(1, 3) as usize;
        let inbound = rng.chance(1, 2);
        let batch = rng.range(1, 3) as u32;
        let res = format!("c14s-{}-{t}", opts.shard);
        let barrier = Arc::new(Barrier::new(nthreads));
        let tt = if inbound { TrafficType::Inbound } else { TrafficType::Outbound };
        let mut hs = vec![];
        for _ in 0..nthreads {
            let res = res.clone();
            let b = barrier.clone();
            hs.push(std::thread::spawn(move || {
                b.wait();
                let mut nodes = vec![];
                let mut n = 0u64;
                for _ in 0..pairs {
                    let e = EntryBuilder::new(res.clone()).with_traffic_type(tt).with_batch_count(batch).build().expect("no rules");
                    if let Some(nd) = e.context().read().unwrap().stat_node() {
                        nodes.push(Arc::as_ptr(&nd) as *const () as usize);
                    }
                    e.exit();
                    n += batch as u64;
                }
                (nodes, n)
            }));
        }
        let mut nodes = vec![];
        let mut total = 0u64;
        let mut died = false;
        for h in hs {
            match h.join() {
                Ok((n, c)) => {
                    nodes.extend(n);
                    total += c;
                }
                Err(_) => died = true,
            }
        }
        let case = json!({"threads": nthreads, "pairs": pairs, "inbound": inbound, "batch": batch, "trial": t});
        rep.case(Some(format!("t{nthreads}p{pairs}in{}b{batch}", inbound as u8)), || case.clone());
        if died {
            rep.violation("stress/panic-in-worker", common::take_last_panic().unwrap_or_default(), case);
            continue;
        }
        let node = stat::get_resource_node(&res).expect("node");
        let p = Arc::as_ptr(&node) as *const () as usize;
        let distinct: std::collections::BTreeSet<usize> = nodes.iter().cloned().collect();
        if distinct.len() > 1 || distinct.iter().any(|x| *x != p) {
            split += 1;
            rep.violation("stress/node/entries-accounted-on-different-nodes", format!("{} entries used {} nodes", nodes.len(), distinct.len()), case.clone());
        }
        if node.current_concurrency() != 0 {
            rep.violation("stress/in-flight-not-zero", format!("in-flight {} after all exits", node.current_concurrency()), case.clone());
        }
        let (p_, c_) = (node.sum(MetricEvent::Pass), node.sum(MetricEvent::Complete));
        if p_ != total || c_ != total {
            rep.violation(
                if p_ > total || c_ > total { "stress/totals-exceed" } else { "stress/totals-lost-within-one-bucket" },
                format!("pass {p_} complete {c_}, threads recorded {total}"),
                case,
            );
        }
        if t % 2000 == 1999 {
            stat::reset_resource_map();
        }
    }
    rep.count("stress_trials", trials);
    rep.count("stress_split_nodes", split);
    rep.finish()
}
