//! C07 — throttling paces admissions, bounds queueing and really delays the caller.
//!
//! Monitor: two observation points. (check) `Controller::perform_checking`
//! returns the token result without sleeping, so bursts at one instant are
//! possible; (build) `EntryBuilder::build()` bracketed by readings of the virtual
//! clock, where a virtual sleep advances the clock, so the instant at which the
//! protected code would start is observable. The oracle is a trace specification
//! over (arrival, decision, start): consecutive starts are at least
//! batch*interval/rate apart, nobody waits longer than the maximum queueing time,
//! a rejection is justified only by a wait that would exceed it (or threshold 0 /
//! batch above threshold), and the caller never returns before its slot.

use common::{fresh_name, Opts, Report, Rng, T0_MS};
use sentinel_core::base::{ResourceType, StatNode, TokenResult};
use sentinel_core::{flow, hotspot, stat, EntryBuilder};
use seq::*;
use serde_json::{json, Value};
use std::collections::HashMap;
use std::sync::Arc;

#[derive(Clone, Debug, PartialEq)]
enum Family {
    Flow,
    Hotspot,
}

#[derive(Clone, Debug)]
struct Case {
    family: Family,
    via_build: bool,
    /// flow: threshold per stat_interval_ms; hotspot: threshold per duration
    rate: f64,
    interval_ms: u64,
    max_queue_ms: u64,
    t0_ns: i64,
    /// (how the arrival is placed, batch, value index)
    reqs: Vec<(Arrival, u32, usize)>,
}

#[derive(Clone, Debug)]
enum Arrival {
    /// same instant as the previous arrival
    Same,
    /// relative to the next free slot (previous start + this request's interval): offset in ns
    Slot(i64),
    /// relative to the instant where the wait would be exactly the maximum: offset in ns
    MaxEdge(i64),
    /// plain gap in ns
    Gap(i64),
}

impl Case {
    fn to_json(&self) -> Value {
        json!({"family": format!("{:?}", self.family), "via_build": self.via_build, "rate": self.rate,
            "interval_ms": self.interval_ms, "max_queue_ms": self.max_queue_ms, "t0_ns": self.t0_ns,
            "reqs": self.reqs.iter().map(|(a, b, v)| json!([format!("{a:?}"), b, v])).collect::<Vec<_>>()})
    }
}

fn gen_case(rng: &mut Rng, base_ms: u64, long: bool) -> Case {
    let family = if rng.chance(1, 2) { Family::Flow } else { Family::Hotspot };
    let (rate, interval_ms) = match family {
        Family::Flow => (
            *rng.pick(&[0.0, 0.5, 1.0, 2.0, 3.0, 7.0, 10.0, 100.0, 1000.0]),
            *rng.pick(&[0u64, 100, 250, 1000, 1000, 3000, 10_000]),
        ),
        Family::Hotspot => (*rng.pick(&[0.0, 1.0, 2.0, 3.0, 7.0, 10.0, 100.0, 1000.0]), rng.range(1, 3) * 1000),
    };
    let max_queue_ms = *rng.pick(&[0u64, 1, 5, 100, 333, 500, 1000, 2000]);
    let unit: i64 = if family == Family::Flow { 1 } else { 1_000_000 }; // clock resolution of the rule
    let n = if long { 20 + rng.below(100) } else { 8 + rng.below(40) } as usize;
    let mut reqs = vec![];
    for _ in 0..n {
        let a = match rng.below(10) {
            0 | 1 => Arrival::Same,
            2..=4 => Arrival::Slot(*rng.pick(&[0i64, -1, 1, -2, 2, -1000, 1000]) * unit),
            5 | 6 => Arrival::MaxEdge(*rng.pick(&[0i64, -1, 1, -3, 3]) * unit),
            7 => Arrival::Gap(rng.below(2_000_000_000) as i64),
            8 => Arrival::Gap((rng.below(50) as i64) * 1_000_000),
            _ => Arrival::Gap(20_000_000_000),
        };
        reqs.push((a, *rng.pick(&[1u32, 1, 1, 1, 2, 3, 5]), rng.below(3) as usize));
    }
    Case {
        family,
        via_build: rng.chance(1, 2),
        rate,
        interval_ms,
        max_queue_ms,
        t0_ns: (base_ms as i64) * 1_000_000 + rng.below(1_000_000) as i64,
        reqs,
    }
}

const VALUES: &[&str] = &["u1", "u2", "u3"];

struct Outcome {
    sig: Option<String>,
    violation: Option<(String, String)>,
    decisions: u64,
    sleeps: u64,
}

fn run_case(case: &Case) -> Outcome {
    let res = fresh_name("c07");
    VClock::set_ns(if case.family == Family::Hotspot { case.t0_ns - case.t0_ns % 1_000_000 } else { case.t0_ns });
    let eff_interval_ms = if case.family == Family::Flow && case.interval_ms == 0 { 1000 } else { case.interval_ms };
    let interval_ns_total = eff_interval_ms as f64 * 1e6;
    match case.family {
        Family::Flow => {
            flow::load_rules_of_resource(
                &res,
                vec![Arc::new(flow::Rule {
                    resource: res.clone(),
                    threshold: case.rate,
                    control_strategy: flow::ControlStrategy::Throttling,
                    calculate_strategy: flow::CalculateStrategy::Direct,
                    max_queueing_time_ms: case.max_queue_ms as u32,
                    stat_interval_ms: case.interval_ms as u32,
                    ..Default::default()
                })],
            )
            .unwrap();
        }
        Family::Hotspot => {
            hotspot::load_rules_of_resource(
                &res,
                vec![Arc::new(hotspot::Rule {
                    resource: res.clone(),
                    metric_type: hotspot::MetricType::QPS,
                    control_strategy: hotspot::ControlStrategy::Throttling,
                    param_index: 0,
                    threshold: case.rate as u64,
                    max_queueing_time_ms: case.max_queue_ms,
                    duration_in_sec: case.interval_ms / 1000,
                    params_max_capacity: 16,
                    ..Default::default()
                })],
            )
            .unwrap();
        }
    }
    let mut out = Outcome {
        sig: None,
        violation: None,
        decisions: 0,
        sleeps: 0,
    };
    let node: Arc<dyn StatNode> = stat::get_or_create_resource_node(&res, &ResourceType::Common);
    // per value (flow: one stream): start instant of the last admitted request
    let mut last_start: HashMap<usize, i64> = HashMap::new();
    let max_ns = case.max_queue_ms as i64 * 1_000_000;
    // resolution: flow computes in ns (float->int truncation), hotspot in whole ms
    let slack: i64 = if case.family == Family::Flow { 2 } else { 1_000_000 };
    let fam = format!("{:?}", case.family).to_lowercase();
    let (mut waits, mut rejs, mut passes, mut bursts, mut edge, mut batchy) = (0u32, 0u32, 0u32, 0u32, 0u32, 0u32);
    let mut reloads = 0u32;
    let mut prev_arrival = case.t0_ns;
    // flow cases: at one point of the history the rules are replaced by an equal throttling rule (new id)
    // plus an extra, very lax reject rule - an effective reload that leaves the throttling rule unchanged.
    // The pacing schedule must simply continue (the oracle below does not know about the reload).
    let reload_at = if case.family == Family::Flow && case.t0_ns % 3 == 0 { Some(case.reqs.len() / 2) } else { None };
    for (i, (arr, batch, vi)) in case.reqs.iter().enumerate() {
        if reload_at == Some(i) {
            let same = Arc::new(flow::Rule {
                resource: res.clone(),
                threshold: case.rate,
                control_strategy: flow::ControlStrategy::Throttling,
                calculate_strategy: flow::CalculateStrategy::Direct,
                max_queueing_time_ms: case.max_queue_ms as u32,
                stat_interval_ms: case.interval_ms as u32,
                ..Default::default()
            });
            let lax = Arc::new(flow::Rule { resource: res.clone(), threshold: 1e12, ..Default::default() });
            let _ = flow::load_rules_of_resource(&res, vec![lax, same]);
            reloads += 1;
        }
        let stream = if case.family == Family::Flow { 0 } else { *vi };
        let n = *batch as f64;
        let interval_k = if case.rate > 0.0 { n * interval_ns_total / case.rate } else { f64::INFINITY };
        let now0 = VClock::now_ns();
        // absolute instants are ~1.7e18 ns: beyond f64 resolution, so integer arithmetic
        let interval_i: Option<i64> = if interval_k.is_finite() && interval_k < 4e18 { Some(interval_k as i64) } else { None };
        let next_slot: Option<i64> = match (last_start.get(&stream), interval_i) {
            (Some(s), Some(iv)) => s.checked_add(iv),
            _ => None,
        };
        let arrival = match arr {
            Arrival::Same => {
                bursts += 1;
                prev_arrival.max(now0)
            }
            Arrival::Gap(g) => now0 + g,
            Arrival::Slot(off) => match next_slot {
                Some(s) => {
                    edge += 1;
                    (s + off).max(now0)
                }
                _ => now0 + 1_000_000,
            },
            Arrival::MaxEdge(off) => match next_slot {
                Some(s) => {
                    edge += 1;
                    (s - max_ns + off).max(now0)
                }
                _ => now0 + 1_000_000,
            },
        };
        // hotspot rules see whole milliseconds only: keep arrivals on the ms grid
        let arrival = if case.family == Family::Hotspot { arrival - arrival % 1_000_000 } else { arrival };
        let arrival = arrival.max(now0);
        prev_arrival = arrival;
        VClock::set_ns(arrival);
        out.decisions += 1;
        if *batch > 1 {
            batchy += 1;
        }
        // ---- act
        let value = VALUES[*vi].to_string();
        let (admitted, start, err_txt): (bool, i64, String) = if case.via_build {
            let mut b = EntryBuilder::new(res.clone()).with_batch_count(*batch);
            if case.family == Family::Hotspot {
                b = b.with_args(Some(vec![value.clone()]));
            }
            sentinel_core::utils::verif_clock::take_sleep_log();
            let r = b.build();
            let after = VClock::now_ns();
            out.sleeps += sentinel_core::utils::verif_clock::sleep_stats().0;
            match r {
                Ok(e) => {
                    e.exit();
                    (true, after, String::new())
                }
                Err(e) => (false, after, e.to_string()),
            }
        } else {
            let tr = match case.family {
                Family::Flow => flow::get_traffic_controller_list_for(&res)
                    .iter()
                    .find(|c| c.rule().control_strategy == flow::ControlStrategy::Throttling)
                    .expect("throttling controller")
                    .perform_checking(node.clone(), *batch, 0),
                Family::Hotspot => hotspot::get_traffic_controller_list_for(&res)[0].perform_checking(value.clone(), *batch),
            };
            match tr {
                TokenResult::Pass => (true, arrival, String::new()),
                // the value is documented as nanoseconds to wait
                TokenResult::Wait(ns) => (true, arrival + ns as i64, String::new()),
                TokenResult::Blocked(e) => (false, arrival, format!("{e:?}")),
            }
        };
        // ---- judge
        let prev = last_start.get(&stream).copied();
        let ideal_wait: f64 = match (prev, interval_i) {
            (Some(p), Some(iv)) => ((p - arrival).saturating_add(iv)).max(0) as f64,
            (Some(_), None) => f64::INFINITY,
            (None, _) => 0.0,
        };
        let always_reject = case.rate <= 0.0 || (case.family == Family::Flow && n > case.rate);
        if admitted {
            if always_reject {
                out.violation = Some((
                    format!("{fam}/admitted-with-zero-threshold-or-oversized-batch"),
                    format!("req#{i}: admitted with rate {} batch {batch}", case.rate),
                ));
                break;
            }
            let waited = start - arrival;
            if waited > 0 {
                waits += 1;
            } else {
                passes += 1;
            }
            if waited > max_ns + slack {
                out.violation = Some((
                    format!("{fam}/queued-longer-than-max"),
                    format!("req#{i}: held for {waited} ns, max queueing {max_ns} ns"),
                ));
                break;
            }
            if let Some(p) = prev {
                let spacing = start - p;
                if (spacing as f64) < interval_k - slack as f64 {
                    out.violation = Some((
                        format!("{fam}/{}", if case.via_build { "caller-not-held-until-its-slot" } else { "scheduled-too-close" }),
                        format!("req#{i} batch {batch}: starts {spacing} ns after the previous admitted request, required spacing batch*interval/rate = {interval_k:.0} ns (arrival {} ns after it; waited {waited} ns)", arrival - p),
                    ));
                    break;
                }
            }
            last_start.insert(stream, start);
        } else {
            rejs += 1;
            if !always_reject {
                // justified only if the wait would exceed the maximum
                let justified = if case.family == Family::Flow {
                    ideal_wait > max_ns as f64 - slack as f64
                } else {
                    ideal_wait >= max_ns as f64 - slack as f64
                };
                if !justified {
                    out.violation = Some((
                        format!("{fam}/rejected-although-wait-within-max"),
                        format!("req#{i} batch {batch}: rejected, but its wait would be {ideal_wait:.0} ns <= max {max_ns} ns"),
                    ));
                    break;
                }
            }
            let want = if case.family == Family::Flow { "Flow" } else { "HotSpotParamFlow" };
            if err_block_type(&err_txt).as_deref() != Some(want) {
                out.violation = Some((format!("{fam}/report-block-type"), format!("reported as {:?}", err_block_type(&err_txt))));
                break;
            }
        }
    }
    match case.family {
        Family::Flow => {
            let _ = flow::load_rules_of_resource(&res, vec![]);
        }
        Family::Hotspot => {
            let _ = hotspot::load_rules_of_resource(&res, vec![]);
        }
    }
    if waits > 0 && rejs > 0 && passes > 0 {
        out.sig = Some(format!(
            "{fam}|{}|rate{}|int{}|max{}|burst{}|edge{}|batch{}|reload{}",
            if case.via_build { "build" } else { "check" },
            case.rate,
            eff_interval_ms,
            case.max_queue_ms,
            (bursts > 0) as u8,
            (edge > 0) as u8,
            (batchy > 0) as u8,
            reloads
        ));
    }
    out
}

/// Several throttling rules on one resource (loaded together, or one appended later): every rule paces
/// the admissions, so consecutive admitted requests start at least max_i(batch*interval_i/rate_i) apart and
/// the caller is held until then. Returns (violation, json of the case, decisions).
fn run_multi_rule(rng: &mut Rng, base_ms: u64) -> (Option<(String, String)>, Value, u64) {
    let res = fresh_name("c07m");
    let t0 = (base_ms as i64) * 1_000_000;
    VClock::set_ns(t0);
    let nrules = rng.range(2, 3) as usize;
    let mut specs: Vec<(f64, u64)> = vec![];
    while specs.len() < nrules {
        let s = (*rng.pick(&[2.0, 4.0, 5.0, 10.0, 20.0, 50.0]), *rng.pick(&[1000u64, 1000, 500, 2000]));
        if !specs.contains(&s) {
            specs.push(s);
        }
    }
    let mk = |(rate, iv): (f64, u64)| {
        Arc::new(flow::Rule {
            resource: res.clone(),
            threshold: rate,
            control_strategy: flow::ControlStrategy::Throttling,
            calculate_strategy: flow::CalculateStrategy::Direct,
            max_queueing_time_ms: 60_000,
            stat_interval_ms: iv as u32,
            ..Default::default()
        })
    };
    let appended = rng.chance(1, 2);
    if appended {
        flow::load_rules_of_resource(&res, vec![mk(specs[0])]).unwrap();
        for s in &specs[1..] {
            flow::append_rule(mk(*s));
        }
    } else {
        flow::load_rules_of_resource(&res, specs.iter().map(|s| mk(*s)).collect()).unwrap();
    }
    let n = 6 + rng.below(20);
    let mut gaps = vec![];
    let mut last: Option<i64> = None;
    let mut viol = None;
    for i in 0..n {
        let gap_ms = *rng.pick(&[0u64, 0, 0, 1, 10, 40, 100, 300]);
        gaps.push(gap_ms);
        VClock::advance_ms(gap_ms);
        let batch = *rng.pick(&[1u32, 1, 1, 2]);
        let arrival = VClock::now_ns();
        let r = EntryBuilder::new(res.clone()).with_batch_count(batch).build();
        let start = VClock::now_ns();
        if let Ok(e) = r {
            e.exit();
            let need = specs.iter().map(|(rate, iv)| batch as f64 * *iv as f64 * 1e6 / rate).fold(0.0, f64::max);
            if let Some(p) = last {
                if ((start - p) as f64) < need - 2.0 {
                    viol = Some((
                        "flow/multi-rule/caller-not-held-until-its-slot".to_string(),
                        format!(
                            "{} throttling rules (rate, interval ms) {specs:?} ({}): req#{i} batch {batch} arrived {} ns after the previous admitted start and started {} ns after it; the slowest rule requires {need:.0} ns",
                            specs.len(),
                            if appended { "first loaded, others appended" } else { "loaded together" },
                            arrival - p,
                            start - p
                        ),
                    ));
                    break;
                }
            }
            last = Some(start);
        }
    }
    let _ = flow::load_rules_of_resource(&res, vec![]);
    (viol, json!({"multi_rule": specs, "appended": appended, "gaps_ms": gaps, "t0_ms": base_ms}), n)
}

fn main() {
    let opts = Opts::parse();
    common::install_panic_capture();
    let mut rep = Report::new("C07", &opts);
    VClock::install(T0_MS);
    let mut rng = opts.rng();
    let thorough = opts.thorough();
    let ncases = if thorough { 200_000 } else { 20_000 };
    let mut base = T0_MS + 500_000_000 * (1 + opts.shard);
    for i in 0..ncases {
        if rep.over_budget() {
            break;
        }
        base += 10_000_000;
        let case = gen_case(&mut rng, base, thorough);
        let r = common::catch(|| run_case(&case));
        match r {
            Ok(o) => {
                rep.count("decisions", o.decisions);
                rep.count("virtual_sleeps_observed", o.sleeps);
                rep.case(o.sig.clone(), || case.to_json());
                if let Some((sig, detail)) = o.violation {
                    rep.violation(&sig, detail, case.to_json());
                }
            }
            Err(p) => {
                rep.case(None, || Value::Null);
                rep.violation(&format!("panic/{}", common::panic_site(&p)), p, case.to_json());
            }
        }
        if i % 6 == 5 {
            base += 200_000;
            match common::catch(|| run_multi_rule(&mut rng, base)) {
                Ok((v, cj, n)) => {
                    rep.count("decisions", n);
                    rep.count("multi_rule_cases", 1);
                    rep.case(Some(format!("flow|multi-rule|{}", cj["multi_rule"].as_array().map(|a| a.len()).unwrap_or(0))), || cj.clone());
                    if let Some((sig, detail)) = v {
                        rep.violation(&sig, detail, cj);
                    }
                }
                Err(p) => rep.violation(&format!("panic/{}", common::panic_site(&p)), p, Value::Null),
            }
        }
        if i % 300 == 299 {
            stat::reset_resource_map();
        }
    }
    rep.finish()
}
