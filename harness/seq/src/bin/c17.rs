//! C17 — accepted configuration is usable and is the same for every thread.
//!
//! Monitor: a grid of (sample_count_total, interval_ms_total, sample_count,
//! interval_ms) incl. zero, non-dividing and non-tiling values is given to
//! init_with_config (entity) and init_with_config_file (YAML text). Accepted
//! configurations must give working statistics with the configured geometry on
//! the initialising thread AND on a freshly spawned thread, and every public
//! configuration getter must return the same on both threads.

use common::{fresh_name, Opts, Report, Rng, T0_MS};
use sentinel_core::base::{MetricEvent, ReadStat, ResourceType, WriteStat};
use sentinel_core::config::{self, ConfigEntity};
use sentinel_core::{flow, stat, EntryBuilder};
use seq::*;
use serde_json::{json, Value};
use std::sync::Arc;

/// written from the statement: the default metric window (sc, iv) can be served by
/// the global window (sct, ivt)
fn servable(sct: u32, ivt: u32, sc: u32, iv: u32) -> bool {
    if sct == 0 || ivt == 0 || ivt % sct != 0 {
        return false;
    }
    if sc == 0 || iv == 0 || iv % sc != 0 {
        return false;
    }
    let bl = ivt / sct;
    ivt % iv == 0 && (iv / sc) % bl == 0
}

fn entity(sct: u32, ivt: u32, sc: u32, iv: u32, dir: &str) -> ConfigEntity {
    let mut e = ConfigEntity::new();
    e.config.stat.sample_count_total = sct;
    e.config.stat.interval_ms_total = ivt;
    e.config.stat.sample_count = sc;
    e.config.stat.interval_ms = iv;
    // no background threads: collectors off, cached time off, metric log off
    e.config.stat.system.system_interval_ms = 0;
    e.config.stat.system.load_interval_ms = 0;
    e.config.stat.system.cpu_interval_ms = 0;
    e.config.stat.system.memory_interval_ms = 0;
    e.config.use_cache_time = false;
    e.config.log.metric.flush_interval_sec = 0;
    e.config.log.metric.dir = dir.to_string();
    e.config.app.app_name = "c17-app".into();
    e
}

type Getters = (u32, u32, u32, u32, u32, String, bool, u32, u64, usize);

fn getters() -> Getters {
    (
        config::global_stat_sample_count_total(),
        config::global_stat_interval_ms_total(),
        config::metric_stat_sample_count(),
        config::metric_stat_interval_ms(),
        config::global_stat_bucket_length_ms(),
        config::app_name(),
        config::use_cache_time(),
        config::metric_log_flush_interval_sec(),
        config::metric_log_single_file_max_size(),
        config::metric_log_max_file_amount(),
    )
}

/// what a thread sees: getters, geometry of a node it creates, and whether an
/// event recorded at t is visible through the default metric exactly until one
/// configured window later
fn probe_thread(tag: &str, base_ms: u64, iv: u32, bl: u32) -> Result<(Getters, (u32, u32, u32, u32), String), String> {
    common::catch(|| {
        let g = getters();
        let name = fresh_name(&format!("c17-{tag}"));
        let node = stat::get_or_create_resource_node(&name, &ResourceType::Common);
        let geo = node.verif_geometry();
        // behavioural cross-check of the window length under the virtual clock
        let t = base_ms - base_ms % (bl.max(1) as u64);
        VClock::set_ms(t);
        node.add_count(MetricEvent::Pass, 3);
        let mut beh = String::new();
        VClock::set_ms(t + iv as u64 - 1);
        if node.sum(MetricEvent::Pass) != 3 {
            beh = format!("event not visible at t+window-1 (sum {})", node.sum(MetricEvent::Pass));
        }
        VClock::set_ms(t + iv as u64);
        if node.sum(MetricEvent::Pass) != 0 {
            beh = format!("event still visible at t+window (sum {})", node.sum(MetricEvent::Pass));
        }
        // an entry through the global chain on a resource first touched by this thread
        let res = fresh_name(&format!("c17e-{tag}"));
        flow::load_rules_of_resource(&res, vec![Arc::new(flow::Rule { resource: res.clone(), threshold: 2.0, ..Default::default() })]).unwrap();
        VClock::set_ms(t + 10 * iv as u64);
        let mut admitted = 0;
        for _ in 0..4 {
            if let Ok(e) = EntryBuilder::new(res.clone()).build() {
                e.exit();
                admitted += 1;
            }
        }
        flow::clear_rules_of_resource(&res);
        if admitted != 2 && beh.is_empty() {
            beh = format!("flow rule with threshold 2 on the default window admitted {admitted} of 4 at one instant");
        }
        (g, geo, beh)
    })
}

fn main() {
    let opts = Opts::parse();
    common::install_panic_capture();
    let mut rep = Report::new("C17", &opts);
    VClock::install(T0_MS);
    let scratch = std::env::var("VERIF_SCRATCH").unwrap_or_else(|_| "/tmp".into());
    let mut rng: Rng = opts.rng();
    // the grid
    let scts = [0u32, 1, 2, 3, 4, 10, 20, 7];
    let ivts = [0u32, 500, 1000, 2000, 10_000, 999];
    let scs = [0u32, 1, 2, 3, 4, 5];
    let ivs = [0u32, 100, 250, 500, 1000, 2000, 3000, 10_000];
    let mut rows: Vec<(u32, u32, u32, u32)> = vec![];
    for a in scts {
        for b in ivts {
            for c in scs {
                for d in ivs {
                    rows.push((a, b, c, d));
                }
            }
        }
    }
    let extra = if opts.thorough() { 20_000 } else { 1_000 };
    for _ in 0..extra {
        rows.push((rng.range(0, 24) as u32, *rng.pick(&[0u32, 1, 20, 600, 1000, 1200, 5000, 10_000, 60_000]), rng.range(0, 12) as u32, *rng.pick(&[0u32, 1, 20, 200, 300, 500, 600, 1000, 1200, 2500, 5000, 10_000])));
    }
    // constructed servable geometries (the grid and the random rows are mostly unservable):
    // ring of n buckets of bl ms, default window of k | n buckets read as sc | k samples
    for _ in 0..(if opts.thorough() { 6_000 } else { 400 }) {
        let n = rng.range(1, 24) as u32;
        let bl = *rng.pick(&[1u32, 5, 50, 100, 250, 500, 1000, 3000]);
        let divs = |x: u32| -> Vec<u32> { (1..=x).filter(|d| x % d == 0).collect() };
        let k = *rng.pick(&divs(n));
        let sc = *rng.pick(&divs(k));
        rows.push((n, n * bl, sc, k * bl));
    }
    // fine-grained global windows (thousands of buckets, down to one bucket per millisecond): legal whenever
    // they divide and tile, so accepted by validation and usable
    for (n, ivt, sc, iv) in [(2000u32, 10_000u32, 2u32, 1000u32), (10_000, 10_000, 1, 1000), (5000, 10_000, 5, 1000), (1025, 10_250, 1, 50), (4096, 8192, 2, 4096), (1200, 60_000, 4, 1000)] {
        rows.push((n, ivt, sc, iv));
    }
    let mut base = T0_MS + 1_000_000_000 * (1 + opts.shard);
    // the geometry in effect: the documented defaults until the first accepted initialisation
    let mut in_effect: (u32, u32, u32, u32) = (
        config::global_stat_sample_count_total(),
        config::global_stat_interval_ms_total(),
        config::metric_stat_sample_count(),
        config::metric_stat_interval_ms(),
    );
    for (i, (sct, ivt, sc, iv)) in rows.iter().cloned().enumerate() {
        if i as u64 % opts.nshards != opts.shard {
            continue;
        }
        base += 1_000_000;
        let by_yaml = i % 2 == 1;
        let want = servable(sct, ivt, sc, iv);
        let case = json!({"sample_count_total": sct, "interval_ms_total": ivt, "sample_count": sc, "interval_ms": iv, "via": if by_yaml { "yaml" } else { "entity" }});
        let e = entity(sct, ivt, sc, iv, &scratch);
        let before = common::catch(getters);
        let init = common::catch(|| {
            if by_yaml {
                let path = format!("{scratch}/c17-{i}.yaml");
                std::fs::write(&path, serde_yaml_text(&e)).unwrap();
                let r = sentinel_core::init_with_config_file(path.clone());
                let _ = std::fs::remove_file(&path);
                r
            } else {
                sentinel_core::init_with_config(e)
            }
        });
        let accepted = match init {
            Ok(r) => r.is_ok(),
            Err(p) => {
                rep.case(None, || case.clone());
                rep.violation(&format!("panic/init/{}", common::panic_site(&p)), p, case);
                continue;
            }
        };
        let sig = format!(
            "{}|{}|tile{}|div{}{}|zero{}",
            if by_yaml { "yaml" } else { "entity" },
            if want { "servable" } else { "unservable" },
            (ivt != 0 && iv != 0 && ivt % iv == 0) as u8,
            (sct != 0 && ivt % sct.max(1) == 0) as u8,
            (sc != 0 && iv % sc.max(1) == 0) as u8,
            (sct == 0 || ivt == 0 || sc == 0 || iv == 0) as u8
        );
        if accepted != want {
            rep.case(Some(sig), || case.clone());
            rep.violation(
                if accepted { "validation/unservable-configuration-accepted" } else { "validation/servable-configuration-rejected" },
                format!("global window {sct} x {} ms, default metric {sc} buckets / {iv} ms: accepted={accepted}, servable={want}", if sct > 0 { ivt / sct } else { 0 }),
                case,
            );
            continue;
        }
        if !accepted {
            // a rejected configuration must not be in effect: the getters still answer as before the
            // call and statistics keep working with the geometry that was in effect, on both threads
            rep.case(Some(sig), || case.clone());
            rep.count("rejected_configurations_probed", 1);
            let after = common::catch(getters);
            let (esct, eivt, esc, eiv) = in_effect;
            let here = probe_thread("rej-main", base, eiv, eivt / esct);
            let there = std::thread::spawn(move || {
                common::install_panic_capture();
                probe_thread("rej-spawned", base + 500_000, eiv, eivt / esct)
            })
            .join()
            .unwrap_or_else(|_| Err("spawned thread died".into()));
            match (&before, &after, &here, &there) {
                (Ok(b), Ok(a), _, _) if a != b => rep.violation("rejected/configuration-changed-although-rejected", format!("getters before the rejected call {b:?}, after it {a:?}"), case),
                (_, Err(p), _, _) => rep.violation(&format!("rejected/getters-panic/{}", common::panic_site(p)), p.clone(), case),
                (_, _, Err(p), _) => rep.violation(&format!("rejected/panic-on-initialising-thread/{}", common::panic_site(p)), p.clone(), case),
                (_, _, _, Err(p)) => rep.violation(&format!("rejected/panic-on-other-thread/{}", common::panic_site(p)), p.clone(), case),
                (_, _, Ok(h), Ok(t)) => {
                    if h.1 != in_effect || t.1 != in_effect {
                        rep.violation("rejected/geometry-changed-although-rejected", format!("in effect {in_effect:?}, nodes created after the rejected call have {:?} / {:?}", h.1, t.1), case);
                    } else if !h.2.is_empty() || !t.2.is_empty() {
                        rep.violation("rejected/behaviour-changed", format!("{} {}", h.2, t.2), case);
                    }
                }
            }
            if common::catch(stat::reset_resource_map).is_err() || !rep.violations.is_empty() && rep.violations.last().map(|v| v.sig.contains("panic")).unwrap_or(false) {
                // a panic under a global lock leaves this process unusable: report what was found and stop the shard
                rep.notes.push("stopped after a panic inside the library (global state poisoned)".into());
                rep.finish();
            }
            continue;
        }
        rep.count("accepted_configurations", 1);
        in_effect = (sct, ivt, sc, iv);
        let bl = ivt / sct;
        // ---- the initialising thread
        let here = probe_thread("main", base, iv, bl);
        // ---- a freshly spawned thread
        let there = std::thread::spawn(move || {
            common::install_panic_capture();
            probe_thread("spawned", base + 500_000, iv, bl)
        })
        .join()
        .unwrap_or_else(|_| Err("spawned thread died".into()));
        rep.case(Some(sig), || case.clone());
        let expect_geo = (sct, ivt, sc, iv);
        match (&here, &there) {
            (Err(p), _) => rep.violation(&format!("panic/use-on-initialising-thread/{}", common::panic_site(p)), p.clone(), case),
            (_, Err(p)) => rep.violation(&format!("panic/use-on-other-thread/{}", common::panic_site(p)), p.clone(), case),
            (Ok(h), Ok(t)) => {
                if h.1 != expect_geo {
                    rep.violation("geometry/initialising-thread-not-as-configured", format!("configured {expect_geo:?}, node has {:?}", h.1), case);
                } else if !h.2.is_empty() {
                    rep.violation("behaviour/initialising-thread", h.2.clone(), case);
                } else if t.1 != expect_geo {
                    rep.violation("geometry/other-thread-not-as-configured", format!("configured {expect_geo:?}, a node created on another thread has {:?}", t.1), case);
                } else if h.0 != t.0 {
                    rep.violation("visibility/getters-differ-between-threads", format!("initialising thread {:?}, other thread {:?}", h.0, t.0), case);
                } else if !t.2.is_empty() {
                    rep.violation("behaviour/other-thread", t.2.clone(), case);
                }
            }
        }
        if common::catch(stat::reset_resource_map).is_err() || rep.violations.last().map(|v| v.sig.starts_with("panic")).unwrap_or(false) {
            // a panic under a global lock leaves this process unusable: report what was found and stop the shard
            rep.notes.push("stopped after a panic inside the library (global state poisoned)".into());
            rep.finish();
        }
    }
    rep.finish()
}

/// YAML text of a configuration entity (hand-written so that the monitor does not
/// depend on the serializer it is checking)
fn serde_yaml_text(e: &ConfigEntity) -> String {
    format!(
        "version: {}\nconfig:\n  app:\n    app_name: {}\n    app_type: Common\n  log:\n    metric:\n      use_pid: {}\n      dir: {}\n      single_file_max_size: {}\n      max_file_count: {}\n      flush_interval_sec: {}\n    exporter:\n      addr: {}\n      metrics_path: {}\n    config_file: {}\n  stat:\n    sample_count_total: {}\n    interval_ms_total: {}\n    sample_count: {}\n    interval_ms: {}\n    system:\n      system_interval_ms: {}\n      load_interval_ms: {}\n      cpu_interval_ms: {}\n      memory_interval_ms: {}\n  use_cache_time: {}\n",
        e.version,
        e.config.app.app_name,
        e.config.log.metric.use_pid,
        e.config.log.metric.dir,
        e.config.log.metric.single_file_max_size,
        e.config.log.metric.max_file_count,
        e.config.log.metric.flush_interval_sec,
        e.config.log.exporter.addr,
        e.config.log.exporter.metrics_path,
        e.config.log.config_file,
        e.config.stat.sample_count_total,
        e.config.stat.interval_ms_total,
        e.config.stat.sample_count,
        e.config.stat.interval_ms,
        e.config.stat.system.system_interval_ms,
        e.config.stat.system.load_interval_ms,
        e.config.stat.system.cpu_interval_ms,
        e.config.stat.system.memory_interval_ms,
        e.config.use_cache_time
    )
}
