//! C01 — reject-type flow control admits a request iff it fits every rule's window.
//!
//! Monitor: drive the real global slot chain (`EntryBuilder::build`) under the
//! virtual clock with generated rule sets and arrival histories; oracle 1 is a
//! reference model (per rule: bucket-aligned window over the admitted tokens),
//! oracle 2 is model-free (observed admissions never exceed a threshold in any
//! bucket-aligned window), oracle 3 checks what a rejection reports.

use common::models::{flow_geometry, WindowLog};
use common::{fresh_name, Opts, Report, Rng, T0_MS};
use sentinel_core::base::EntryStrongPtr;
use sentinel_core::{flow, EntryBuilder};
use seq::*;
use serde_json::{json, Value};
use std::sync::Arc;

#[derive(Clone, Debug)]
struct RuleSpec {
    threshold: f64,
    interval: u32,
}

#[derive(Clone, Debug)]
enum Op {
    Adv(u64),
    Req(u32),
    Exit(usize),
}

#[derive(Clone, Debug)]
struct Case {
    rules: Vec<RuleSpec>,
    by_resource: bool,
    t0: u64,
    ops: Vec<Op>,
}

impl Case {
    fn to_json(&self) -> Value {
        json!({
            "rules": self.rules.iter().map(|r| json!({"threshold": r.threshold, "stat_interval_ms": r.interval})).collect::<Vec<_>>(),
            "by_resource": self.by_resource,
            "t0": self.t0,
            "ops": self.ops.iter().map(|o| match o {
                Op::Adv(ms) => json!(["adv", ms]),
                Op::Req(n) => json!(["req", n]),
                Op::Exit(i) => json!(["exit", i]),
            }).collect::<Vec<_>>(),
        })
    }
    fn from_json(v: &Value) -> Case {
        Case {
            rules: v["rules"]
                .as_array()
                .unwrap()
                .iter()
                .map(|r| RuleSpec {
                    threshold: r["threshold"].as_f64().unwrap(),
                    interval: r["stat_interval_ms"].as_u64().unwrap() as u32,
                })
                .collect(),
            by_resource: v["by_resource"].as_bool().unwrap(),
            t0: v["t0"].as_u64().unwrap(),
            ops: v["ops"]
                .as_array()
                .unwrap()
                .iter()
                .map(|o| {
                    let k = o[0].as_str().unwrap();
                    let n = o[1].as_u64().unwrap();
                    match k {
                        "adv" => Op::Adv(n),
                        "req" => Op::Req(n as u32),
                        _ => Op::Exit(n as usize),
                    }
                })
                .collect(),
        }
    }
}

const THRESHOLDS: &[f64] = &[0.0, 0.5, 1.0, 2.0, 2.5, 3.0, 5.0, 10.0, 17.0, 40.0];
const INT_DEFAULT: &[u32] = &[0, 1000];
const INT_REUSE: &[u32] = &[500, 2000, 2500, 5000, 10000];
const INT_PRIVATE: &[u32] = &[7, 100, 250, 700, 1500, 3000, 4000, 20000];

fn gen_case(rng: &mut Rng, base: u64, thorough: bool) -> Case {
    let nrules = 1 + rng.below(3) as usize;
    let mut rules: Vec<RuleSpec> = Vec::new();
    while rules.len() < nrules {
        let class = rng.below(3);
        let interval = *match class {
            0 => rng.pick(INT_DEFAULT),
            1 => rng.pick(INT_REUSE),
            _ => rng.pick(INT_PRIVATE),
        };
        let threshold = if rng.chance(1, 8) {
            (rng.below(60) as f64) / 2.0
        } else {
            *rng.pick(THRESHOLDS)
        };
        // no two rules equal under the rule equality (same interval+threshold):
        // the quantifier is about distinct rules
        let eff = |i: u32| if i == 0 { 1000 } else { i };
        if rules
            .iter()
            .any(|r| eff(r.interval) == eff(interval) && r.threshold == threshold)
        {
            continue;
        }
        rules.push(RuleSpec {
            threshold,
            interval,
        });
    }
    // candidate gaps from the geometries in play
    let mut gaps: Vec<u64> = vec![0, 0, 1, 10_000, 25_000];
    for r in &rules {
        let (bl, w, _) = flow_geometry(r.interval);
        gaps.extend_from_slice(&[
            bl.saturating_sub(1),
            bl,
            bl + 1,
            w.saturating_sub(1),
            w,
            w + 1,
            2 * w,
        ]);
    }
    let offs = [0u64, 0, 1, 499, 250, rng.below(500), rng.below(10_000)];
    let t0 = base + *rng.pick(&offs);
    let len = if thorough {
        20 + rng.below(180)
    } else {
        10 + rng.below(60)
    } as usize;
    let mut ops = Vec::with_capacity(len);
    let mut t = t0;
    let mut open = 0usize;
    let batches = [0u32, 1, 1, 1, 1, 2, 3, 5, 8];
    for _ in 0..len {
        let k = rng.below(10);
        if k < 3 {
            let mode = rng.below(10);
            let gap = if mode < 5 {
                *rng.pick(&gaps)
            } else if mode < 8 {
                // land exactly on / just before / just after a bucket edge of some rule
                let r = rng.pick(&rules);
                let (bl, _, _) = flow_geometry(r.interval);
                let to_edge = bl - (t % bl);
                match rng.below(3) {
                    0 => to_edge,
                    1 => to_edge.saturating_sub(1),
                    _ => to_edge + 1,
                }
            } else {
                rng.below(3000)
            };
            t += gap;
            ops.push(Op::Adv(gap));
        } else if k < 9 || open == 0 {
            ops.push(Op::Req(*rng.pick(&batches)));
            open += 1; // upper bound; blocked ones simply never become open
        } else {
            ops.push(Op::Exit(rng.below(open as u64) as usize));
        }
    }
    Case {
        rules,
        by_resource: rng.chance(1, 3),
        t0,
        ops,
    }
}

struct Outcome {
    nontrivial: Option<String>,
    violation: Option<(String, String)>,
    decisions: usize,
    rejections: usize,
    admissions: usize,
}

fn run_case(case: &Case, rep: &mut Report) -> Outcome {
    let res = fresh_name("c01");
    VClock::set_ms(case.t0);
    let rules: Vec<Arc<flow::Rule>> = case
        .rules
        .iter()
        .map(|r| {
            Arc::new(flow::Rule {
                resource: res.clone(),
                threshold: r.threshold,
                stat_interval_ms: r.interval,
                calculate_strategy: flow::CalculateStrategy::Direct,
                control_strategy: flow::ControlStrategy::Reject,
                ..Default::default()
            })
        })
        .collect();
    if case.by_resource {
        flow::load_rules_of_resource(&res, rules.clone()).unwrap();
    } else {
        flow::load_rules(rules.clone());
    }
    let mut out = Outcome {
        nontrivial: None,
        violation: None,
        decisions: 0,
        rejections: 0,
        admissions: 0,
    };
    // observed geometry per rule (window length must be the rule's; the ring's
    // bucket length is taken as observed, falling back to the documented choice)
    let tcs = flow::get_traffic_controller_list_for(&res);
    if tcs.len() != rules.len() {
        out.violation = Some((
            "setup/controllers-missing".into(),
            format!("{} rules loaded, {} controllers", rules.len(), tcs.len()),
        ));
        return out;
    }
    let mut logs: Vec<(String, f64, WindowLog, &'static str)> = Vec::new();
    for r in &rules {
        let (mbl, mw, class) = flow_geometry(r.stat_interval_ms);
        let tc = tcs.iter().find(|tc| tc.rule().id == r.id).unwrap();
        let dbg = format!("{:?}", tc.stat().read_only_metric());
        let (bl, w) = match (
            debug_fields_u64(&dbg, "bucket_len_ms"),
            debug_field_u64(&dbg, "interval_ms"),
        ) {
            (bls, Some(w)) if !bls.is_empty() => (*bls.last().unwrap(), w),
            _ => {
                rep.count("geometry_fallback", 1);
                (mbl, mw)
            }
        };
        if w != mw {
            out.violation = Some((
                format!("geometry/window-length/{class}"),
                format!(
                    "rule stat_interval_ms={} is served by a {w} ms window (expected {mw})",
                    r.stat_interval_ms
                ),
            ));
            return out;
        }
        if bl != mbl {
            rep.count("geometry_bucket_len_differs_from_documented", 1);
        }
        logs.push((r.id.clone(), r.threshold, WindowLog::new(bl, w), class));
    }

    let mut open: Vec<EntryStrongPtr> = Vec::new();
    let mut rolled_admit = 0usize;
    let mut edge_hits = 0u32;
    for (i, op) in case.ops.iter().enumerate() {
        match op {
            Op::Adv(ms) => VClock::advance_ms(*ms),
            Op::Exit(k) => {
                if !open.is_empty() {
                    let e = open.remove(*k % open.len());
                    e.exit();
                }
            }
            Op::Req(n) => {
                let t = VClock::now_ms();
                let n64 = *n as u64;
                let mut misfit: Vec<&str> = Vec::new();
                for (id, th, log, _) in &logs {
                    if log.sum(t) as f64 + n64 as f64 > *th {
                        misfit.push(id.as_str());
                    }
                    if t % log.bl == 0 {
                        edge_hits |= 1;
                    }
                    if t % log.bl == log.bl - 1 {
                        edge_hits |= 2;
                    }
                }
                let expect_admit = misfit.is_empty();
                let r = EntryBuilder::new(res.clone())
                    .with_batch_count(*n)
                    .build();
                out.decisions += 1;
                let class = logs
                    .iter()
                    .map(|l| l.3)
                    .collect::<Vec<_>>()
                    .join("+");
                match r {
                    Ok(e) => {
                        if !expect_admit {
                            out.violation = Some((
                                format!("decision/admitted-but-does-not-fit/{class}"),
                                format!("op#{i} t={t} batch={n}: admitted although rules {misfit:?} do not fit; sums={:?}", logs.iter().map(|l| (l.1, l.2.sum(t))).collect::<Vec<_>>()),
                            ));
                            e.exit();
                            break;
                        }
                        out.admissions += 1;
                        if logs.iter().any(|l| l.2.rolled(t)) {
                            rolled_admit += 1;
                        }
                        for l in logs.iter_mut() {
                            l.2.add(t, n64);
                        }
                        open.push(e);
                    }
                    Err(err) => {
                        let txt = err.to_string();
                        if expect_admit {
                            out.violation = Some((
                                format!("decision/rejected-but-fits/{class}"),
                                format!("op#{i} t={t} batch={n}: rejected although every rule fits; sums={:?}; err={}", logs.iter().map(|l| (l.1, l.2.sum(t))).collect::<Vec<_>>(), &txt[..txt.len().min(200)]),
                            ));
                            break;
                        }
                        out.rejections += 1;
                        if err_block_type(&txt).as_deref() != Some("Flow") {
                            out.violation = Some((
                                "report/block-type".into(),
                                format!("flow rejection reported as {:?}", err_block_type(&txt)),
                            ));
                            break;
                        }
                        match err_rule_id(&txt) {
                            Some(id) if misfit.contains(&id.as_str()) => {}
                            other => {
                                out.violation = Some((
                                    "report/names-wrong-rule".into(),
                                    format!("rejection names rule {other:?}, rules that do not fit: {misfit:?}"),
                                ));
                                break;
                            }
                        }
                    }
                }
            }
        }
    }
    // oracle 2 (model-free over what was observed): every bucket-aligned window
    if out.violation.is_none() {
        for (_, th, log, class) in &logs {
            for &(t, _) in &log.events {
                if log.sum(t) as f64 > *th {
                    // sum(t) counts events up to the end of t's bucket that were recorded so far
                    out.violation = Some((
                        format!("window/admitted-exceeds-threshold/{class}"),
                        format!("window ending in bucket of t={t}: admitted {} > threshold {th}", log.sum(t)),
                    ));
                }
            }
        }
    }
    for e in open {
        e.exit();
    }
    let _ = flow::load_rules_of_resource(&res, vec![]);
    if out.rejections > 0 && rolled_admit > 0 {
        let mut classes: Vec<&str> = logs.iter().map(|l| l.3).collect();
        classes.sort();
        out.nontrivial = Some(format!(
            "{}|n{}|edge{}|rej{}|roll{}",
            classes.join("+"),
            logs.len(),
            edge_hits,
            bucket_of(out.rejections),
            bucket_of(rolled_admit)
        ));
    }
    out
}

fn bucket_of(n: usize) -> usize {
    match n {
        0 => 0,
        1 => 1,
        2..=3 => 2,
        4..=7 => 3,
        8..=15 => 4,
        _ => 5,
    }
}

fn main() {
    let opts = Opts::parse();
    common::install_panic_capture();
    let mut rep = Report::new("C01", &opts);
    VClock::install(T0_MS);

    if let Some(path) = &opts.replay {
        let v: Value = serde_json::from_str(&std::fs::read_to_string(path).unwrap()).unwrap();
        let case = Case::from_json(&v["case"]);
        let o = run_case(&case, &mut rep);
        rep.case(o.nontrivial.clone(), || case.to_json());
        if let Some((sig, detail)) = o.violation {
            rep.violation(&sig, detail, case.to_json());
        }
        rep.finish();
    }

    let mut rng = opts.rng();
    let ncases = if opts.thorough() { 40_000 } else { 4_000 };
    let mut base = T0_MS + 100_000 * (1 + opts.shard);
    for i in 0..ncases {
        if rep.over_budget() {
            rep.notes.push(format!("stopped at case {i}: budget"));
            break;
        }
        // once per shard: more distinct resources than the soft cap (10 000) exist while the next ~480 cases
        // run; resources first seen after that are flow-controlled like all others
        if i == 15 {
            VClock::set_ms(base);
            for k in 0..10_050u32 {
                if let Ok(e) = sentinel_core::EntryBuilder::new(format!("c01-flood-{}-{k}", opts.shard)).build() {
                    e.exit();
                }
            }
            rep.count("resource_flood_nodes", 10_050);
        }
        let case = gen_case(&mut rng, base, opts.thorough());
        let span: u64 = case
            .ops
            .iter()
            .map(|o| if let Op::Adv(ms) = o { *ms } else { 0 })
            .sum();
        base += span + 60_000 - (span % 10_000) + 10_000;
        base -= base % 10_000;
        let r = common::catch(|| run_case(&case, &mut rep));
        match r {
            Ok(o) => {
                rep.count("decisions", o.decisions as u64);
                rep.count("rejections", o.rejections as u64);
                rep.count("admissions", o.admissions as u64);
                rep.case(o.nontrivial.clone(), || case.to_json());
                if let Some((sig, detail)) = o.violation {
                    rep.violation(&sig, detail, case.to_json());
                }
            }
            Err(p) => {
                rep.case(None, || Value::Null);
                rep.violation(
                    &format!("panic/{}", common::panic_site(&p)),
                    p,
                    case.to_json(),
                );
            }
        }
        if i % 500 == 499 {
            sentinel_core::stat::reset_resource_map();
        }
    }
    rep.finish()
}
